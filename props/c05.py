"""C05 - choice models return proper probability distributions over available options.

Bounded exhaustive exploration on the real code: for J = 2..4 alternatives (non-contiguous labels,
dictionary orders that differ between utilities / availabilities / nests) every model of the family

    logit / loglogit, nested / lognested / nested_mev_mu / lognested_mev_mu,
    cnl / logcnl / cnlmu / logcnlmu, mev / logmev with hand-supplied ln G_i, ordered_logit / ordered_probit

is built through the public functions of biogeme.models and evaluated by the real engine on a table
that holds one row per (utility vector, availability pattern, chosen alternative, shift), for

    * every nest structure: every subset of alternatives outside every nest x every set partition of the rest
      (J=4: 52 structures) x every assignment of nest parameters from a 3-value grid x scale mu from a 2-value grid,
    * CNL: every assignment of each alternative to no nest / one nest / two nests with a split of alpha from a grid,
    * every one of the 2^J - 1 availability patterns, as data columns, as constants and as None,
    * utilities as data columns, numeric constants, fixed and free Betas.

Entry points: besides the model functions above, every other exported way to the same models - the backward-compatible
names (cnl_avail / logcnl_avail, nestedMevMu / lognestedMevMu) and mev / logmev fed with the dict of ln G_i returned by
get_mev_for_nested[_mu] / get_mev_for_cross_nested[_mu] and their camelCase names - with nests given as objects or in
the old tuple syntax (forms sweeps: every J <= 3 nested structure, every J = 2 two-nest CNL structure).

MEV models with correction terms: mev_endogenous_sampling / logmev_endogenous_sampling and their backward-compatible names
(MEV models built from user-supplied ln G_i with one more argument, a correction term per alternative added to V_i + ln G_i):
hand-supplied ln G_i columns x every assignment of a 3-value grid of correction terms (it holds 0) to the alternatives x
the form of the terms (numbers, int 0, Numeric, fixed / free Betas, data columns) x every availability pattern, small shifts
and large common levels; the same pair fed with the ln G_i of the library's helpers on every J <= 3 nested and two-nest
cross-nested structure; without a database through both evaluators; in histories with the entry points without correction.
Reference: the logit on V_i + ln G_i + correction_i over the available alternatives.

Histories: the model functions are called the way a simulation script calls them - many calls with ONE dict of utilities,
ONE dict of availabilities, ONE nest object, ONE dict of ln G_i: every ordered pair of entry points of a family (logit /
loglogit included), the per-alternative loop (one call per alternative with a constant choice, in every rotation of the
alternatives), thorough: every triple over 4-6 entry points, loop + call, all permutations.  Every expression is evaluated
after all the calls of its history were made and must satisfy the same clauses (nothing else is demanded of a history).
The alphabet of the steps of a history holds two more kinds of step (both on LIVE objects):
  * a call that takes ONE of its arguments from a second set of argument objects and all the others from the shared set:
    another dict of utilities (the same utilities plus one constant / another specification b U_i + c_i) with the shared
    nest object, availabilities and parameters - one nest object serving two models one after the other -; another nest
    object (same structure, other parameter values) with the shared utilities; another availability argument (None <-> dict).
    Every ordered pair (call with the shared objects, call with one object of the second set) of entry points of the family
    x every object of the second set; the reference is the closed form for the utilities / availabilities / parameters of
    that call;
  * a change of the VALUES of the parameter objects after expressions were built with them: Expression.change_init_values
    on the built expressions, change_init_values on the parameter objects, the parameters= dictionary of the nest object's
    correlation() / covariance(), the betas= dictionary of the evaluation (free parameters); for every pair of forms
    (nest parameters fixed / free Betas) x (scale number / fixed / free Beta), every entry point of the family, two new
    points of the parameter grid; also evaluate - change - evaluate on one expression.  The expressions are evaluated after
    the change and must satisfy every clause for the values that the parameters then have ("for all nest and scale
    parameters >= 1"; change_init_values: "the fact that the parameters are fixed or free is irrelevant here").

Evaluation entry points: the engine on a database (all of the above), and - for formulas that hold no data variable
(utilities as numbers / Numeric / fixed or free Betas / Beta + Numeric, constant or absent availabilities, constant choice) -
Expression.get_value() (the pure-Python evaluator of every expression class, LogLogit.get_value for the logit kernel) and
Expression.get_value_c() without a database; one expression re-evaluated after Expression.change_init_values included.
The common level of the utilities is part of the alphabet: small shifts everywhere; levels beyond the range of exp()
(+-725 ... +-5000) for the models that are a logit kernel on the given terms (logit / loglogit, mev / logmev on hand-supplied
ln G_i) through the engine and through both evaluators; moderate levels (|level| <= 75) for the nested / cross-nested
formulas through the evaluators.  Ordered models without a database as well (get_value: ordered_logit only, the Python
evaluator has no normal CDF).

Ordered models over the declared parameter domain: the thresholds are values of parameters - the user's Beta for the first
one and Betas that the library creates and declares itself (initial value, bounds) for the following ones.  For K = 2..5
(thorough ..6) categories and every exported entry point (ordered_logit, ordered_probit, ordered_likelihood with the logistic
/ normal CDF) the free parameters and their bounds are read from the returned expressions and the model is evaluated on the
full product of a grid of values inside these declared bounds (the bound itself, points at the alphabet's distances from it,
both signs where a side is unbounded), for every declaration of the user's threshold (unbounded, lower, upper, both bounds),
and at the declared initial values (no parameter value supplied).  Clauses: [0,1], sum = 1 everywhere in the declared
domain; the closed form where the cumulated thresholds are in order.

Oracle per (utility vector, availability pattern): every probability in [0,1]; zero when unavailable; sum = 1;
equal to the textbook closed form (vf.ref_mev: own G(y), closed form cross-checked with dual numbers; it never
imports biogeme); unchanged when one constant is added to all utilities; log model == ln(probability model).
"""
from __future__ import annotations

import hashlib
import itertools
import json
import math
import os

from vf import ref_mev as R
from vf.rec import Rec

ID = 'C05'
LEVEL = 'exploration'
TECHNIQUE = ('bounded exhaustive enumeration of nest structures x nest/scale parameter grids x availability patterns x '
             'utility grids x expression forms, each evaluated by the real engine and compared with closed-form MEV / '
             'ordered probabilities from an independent plain-Python reference; the same enumeration for formulas without data '
             'variables through Expression.get_value (Python evaluator) and Expression.get_value_c() without a database, with '
             'common utility levels beyond the range of exp()')
RULE = ('one case = one (model, expression forms, nest structure, parameter assignment, availability pattern) evaluated on the '
        'whole utility grid (every utility vector x every chosen alternative x every shift is one compared probability '
        'vector, counted in evaluations). Non-trivial: at least two alternatives available, and for nested / cross-nested / '
        'user-MEV models additionally a nest with parameter != scale holding >= 2 available alternatives (so that the MEV '
        'probabilities differ from logit); ordered models: every (K, thresholds) point; over the declared parameter domain: '
        'every (entry point, K, declared bounds of the first threshold, form of the value, point of the product of the '
        'per-parameter grids inside the bounds read from the returned expressions | declared initial values) x value. '
        'distinct = distinct such keys. '
        'Histories: one case = one evaluated call of one history (sequence of entry points called with one set of argument '
        'objects) x availability pattern, same non-triviality rule, the history is part of the key; a step of a history is a call '
        '(entry point, data-column choice | per-alternative loop, optionally ONE argument taken from a second set of argument '
        'objects: second dict of utilities / second nest object / second availability argument), a change of the values of the '
        'parameter objects (route: change_init_values on the built expressions | on the parameter objects | parameters= of the nest '
        'object | betas= of the evaluation; point of the parameter grid) or an evaluation of everything built so far; the expected '
        'values are those of the arguments of the call and of the parameter values at the evaluation. Evaluations without a database: '
        'one case = one (model, forms, structure, parameters, availability pattern, evaluator) evaluated on every utility vector x '
        'chosen alternative x shift / level (one expression built and evaluated per probability); same non-triviality rule, the '
        'evaluator is part of the key. MEV models with correction terms: the correction vector and the form of the terms are part '
        'of the key; non-trivial additionally requires two available alternatives with different correction terms (otherwise the '
        'model is the one without correction).')
ASSUMPTIONS = [
    'continuous domains (utilities, nest parameters, scale, alpha, thresholds) are covered at the grid points of the '
    'per-seed alphabets only (5 alphabets; utilities in [-3, 3.2] plus common shifts up to |12|)',
    'J <= 3 (quick) / J <= 4 (thorough); nested: every structure x the full product of the 3-value parameter grid; '
    'CNL: each alternative in no nest, one nest, or two nests with a split from a 3-value grid; 2 nests (J <= 3 quick, '
    'J <= 4 thorough), 3 nests (J = 2 quick, J <= 3 thorough); full parameter product for the small families, 3 (2 nests) '
    'or 6 (3 nests) assignments for CNL J=3 in quick, 3 nests x J=3 and 2 nests x J=4',
    'expression forms other than data columns (numeric constants, fixed / free Betas, constant or None availabilities, '
    'constant choice, Beta / Numeric nest and scale parameters, alpha as Beta) are crossed with every J=2 structure and '
    '(thorough) every J=3 nested structure; in quick they rotate over the J=3 structures',
    'backward-compatible names and ln G_i helpers: crossed with the forms sweeps (J <= 3 nested, J = 2 CNL; helper rotating '
    'with the structure) and with the histories; get_mev_generating_for_nested (ln G, not a probability model) is not called',
    'MEV models with correction terms (mev_endogenous_sampling, logmev_endogenous_sampling, mev_endogenousSampling, '
    'logmev_endogenousSampling): correction terms from a 3-value grid per alphabet holding 0 (|term| <= 2.3); hand-supplied ln G_i: '
    'J = 2 every generating function x all 9 correction vectors; J = 3 every third generating function x 6 vectors (quick) / every '
    'one x all 27; J = 4 (thorough) every fifth x 6 vectors; the form of the terms rotates with the case; ln G_i from the '
    'library helpers: every J <= 3 nested structure, every J = 2 and (quick: every fourth) J = 3 one-split two-nest cross-nested '
    'structure, 3 (quick) / 6 or 9 correction vectors, helper and forms rotating; without a database: a rotating subset of the '
    'generating functions, forms and vectors (thorough: also the helper-fed pair on the nested / cross-nested structures); '
    'histories: loops and every ordered pair that holds one of these entry points, over 7 entry points, on 2 user-MEV + 1 nested + '
    '1 cross-nested context (quick) / every third or fourth context (thorough), one correction vector per context; the reference '
    'is the logit on V_i + ln G_i + correction_i, computed by re-weighting the reference MEV probabilities with exp(correction)',
    'histories of calls on shared argument objects: depth 2 over all 16 (nested / cnl) or 4 (user MEV) entry points and the '
    'per-alternative loop, on a subset of contexts (quick: 4 J=2 + 3 J=3 nested, 3 J=2 + 2 J=3 CNL structures rotating with '
    'the seed, user MEV J=2 all, J=3 every third; thorough: every J <= 3 nested structure, 3 J=4, 20 CNL structures, depth 3 '
    'over a 4-6 entry alphabet on one context per family and J); utilities are data columns in the histories; quick '
    'evaluates the last call of a pair (and its log / probability partner), thorough every call',
    'histories whose calls do not share all their argument objects: [call with the shared objects, call with one object of the '
    'second set], every ordered pair of the 16 (nested / cross-nested) or 4 (user MEV) entry points x every object of the second '
    'set (second dict of utilities: another specification 0.5 U_i + c_i, thorough also the same utilities + one constant; second '
    'nest object: same structure, every nest parameter at the next grid value, its own parameter objects; second availability '
    'argument: None <-> dict; user MEV: the same utilities + one constant only, the hand-supplied ln G_i being those of the data '
    'columns); at most ONE argument differs between the two calls; quick: one nested and one cross-nested context with a nest of '
    '>= 2 alternatives (rotating with the seed, nests as objects), one user-MEV context per J, the last call evaluated; thorough: '
    'every fifth context with its own syntax, both orders, every call evaluated',
    'histories that change parameter values on live objects: [call, change], [call, evaluate, change] (thorough also [call, change, '
    'call], [call, change, change], [per-alternative loop, change]) on the same contexts, for the 6 pairs of forms (nest '
    'parameters fixed | free Beta) x (scale number | fixed | free Beta); 4 routes (change_init_values on the built expressions, on '
    'the parameter objects, parameters= of NestsForNestedLogit.correlation / NestsForCrossNestedLogit.covariance, betas= of '
    'get_value_c for free parameters); 2 points: every nest parameter at the next grid value; every nest parameter at the grid '
    'value before and the scale at the other value of its grid; every entry point of the family that takes nests (quick: without '
    'the camelCase names of the ln G_i helpers) for [call, change], the 5 core entry points for the other shapes; the alpha '
    'parameters are not changed; all nest parameters of a context have the same form; a history holds either a second set of '
    'argument objects or parameter changes, not both; the value of a parameter after a change follows the documented semantics '
    '(a Beta reached by the route takes the value, fixed or free; numbers and Numeric keep theirs; betas= has precedence for '
    'free parameters); covariance(): scipy.integrate.dblquad is owned (replaced by a one-point rule - the integrand, which applies '
    'parameters=, is executed once; the value of the covariance is not part of this property)',
    'the reference (vf/ref_mev.py) is the trusted base: textbook nested / generalised nested logit closed forms with '
    'alpha^(mu_m/mu), cross-checked in every task against forward-mode differentiation of its own G(y)',
    'comparison tolerance: relative 1e-10 + absolute 1e-12 (shift invariance: relative 1e-9)',
    'large common levels (4 per alphabet, |level| in [725, 5000]) only for the logit kernel on given terms (logit, loglogit, mev / '
    'logmev with hand-supplied ln G_i, whose values at a level follow from the homogeneity of G - checked against the direct '
    'computation at the small shifts); the nested / cross-nested formulas exponentiate mu_m V as written and are taken to '
    'moderate levels only (2 per alphabet, |level| <= 75, nest parameter x scale x |V| < 400); the closed form at a level is '
    'the one of the unshifted utilities (the level enters as the floating-point sum u + level, error <= 1e-12 relative)',
    'evaluation without a database (Expression.get_value, Expression.get_value_c()): formulas without data variables, forms '
    'sweep of 8 (utility form, availability form, choice form, shared argument objects) combinations; logit: all 8 forms, full '
    'utility grid; user MEV: 2 forms (quick) / 8; nested: every J <= 3 structure x 2 (quick) / 4 forms incl. the backward-'
    'compatible names and ln G_i helpers; CNL (2 nests): every J=2 structure, every fourth (quick) / every J=3 one-split '
    'structure; get_value_c() on a rotating subset (quick) of these; ordered_probit has no Python evaluator '
    '(bioNormalCdf.get_value is not implemented): counted as skipped, not demanded',
    'ordered models over the declared parameter domain: 3 grid values per bounded parameter (bound, bound + smallest and + largest '
    'distance of the alphabet; both bounds: ends and midpoint), 4 per unbounded one (two negative, 0, one positive); K <= 5 (quick) / '
    '6 categories; the 4 declarations of the user threshold are all taken for K <= 3 (quick) / K <= 5, a rotating subset above; the '
    'form of the continuous value (data column / free Beta x column) alternates with the point in quick; the closed form is only '
    'compared where the cumulated thresholds are non-decreasing and the created parameters carry the documented names '
    '(<tau>_diff_<category>), elsewhere only [0,1] and sum = 1; values are those of a grid, not of an estimation run; points with '
    'value - smallest threshold >= 6 are skipped for the normal CDF (engine tail, known finding) and counted',
    'ordered probit: the main grid keeps value - threshold < 6 because the external engine normal CDF is wrong above 6 '
    '(separate tail task, known finding); closed forms in that tail are not compared',
]
ANCHOR_FILES = ['src/biogeme/models/logit.py', 'src/biogeme/models/nested.py', 'src/biogeme/models/cnl.py',
                'src/biogeme/models/mev.py', 'src/biogeme/models/ordered.py', 'src/biogeme/nests.py',
                'src/biogeme/distributions.py', 'src/biogeme/expressions/logit_expressions.py']
DETERMINISM_SLICE = 3
TASK_TIMEOUT = 600.0

REL, ABS = 1e-10, 1e-12
TAIL_KEY = 'C05|probability-outside-unit-interval|ordered_probit:engine-normal-cdf-upper-tail(z>=6)'

# --------------------------------------------------------------------------- alphabets (VERIF_SEED picks one)
ALPHABETS = [
    dict(labels=[3, 7, 5, 11], ugrid=[-1.0, 0.0, 0.5, 2.0], mus=[1.0, 1.5, 2.5], scale=[1.0, 1.3],
         splits=[0.3, 0.5, 0.7], shifts=[-3.5, 10.0], cats=[4, 1, 3, 9], xs=[-3.0, -1.2, -0.4, 0.0, 0.3, 1.1, 2.0, 3.0],
         tau1=[-1.5, 0.0, 0.5], diffs=[0.25, 1.0, 2.0]),
    dict(labels=[12, 4, 9, 1], ugrid=[-2.0, -0.25, 1.0, 1.75], mus=[1.0, 1.25, 3.0], scale=[1.0, 1.7],
         splits=[0.25, 0.5, 0.75], shifts=[2.25, -8.0], cats=[2, 5, 6, 10], xs=[-2.5, -1.0, -0.1, 0.0, 0.6, 1.4, 2.2, 2.9],
         tau1=[-1.0, 0.2, 1.0], diffs=[0.5, 0.75, 1.5]),
    dict(labels=[2, 1, 40, 30], ugrid=[-0.5, 0.25, 1.5, 3.0], mus=[1.0, 2.0, 4.0], scale=[1.0, 1.15],
         splits=[0.2, 0.5, 0.8], shifts=[-1.0, 6.5], cats=[7, 8, 9, 10], xs=[-2.0, -1.5, -0.7, 0.0, 0.2, 0.9, 1.9, 2.6],
         tau1=[-0.75, 0.0, 0.3], diffs=[0.1, 1.25, 2.5]),
    dict(labels=[101, 20, 55, 8], ugrid=[-3.0, -1.5, 0.0, 1.0], mus=[1.0, 1.1, 1.9], scale=[1.0, 2.0],
         splits=[0.4, 0.5, 0.6], shifts=[5.0, -12.0], cats=[30, 20, 10, 5], xs=[-3.0, -2.0, -1.0, 0.0, 0.5, 1.0, 1.5, 2.5],
         tau1=[-1.25, -0.5, 0.75], diffs=[0.3, 0.9, 1.8]),
    dict(labels=[9, 8, 7, 6], ugrid=[-1.25, 0.1, 0.9, 2.5], mus=[1.0, 1.6, 2.2], scale=[1.0, 1.45],
         splits=[0.1, 0.5, 0.9], shifts=[-7.0, 3.0], cats=[1, 2, 3, 4], xs=[-2.8, -1.7, -0.6, 0.0, 0.4, 1.3, 2.1, 2.7],
         tau1=[-1.4, 0.1, 0.6], diffs=[0.2, 1.1, 2.2]),
]

# common levels of the utilities (added to every utility of an observation), per alphabet:
#   levels  - large ones, beyond the range of exp() in double precision (|level| - |u| > 745): the logit kernel (logit /
#             loglogit, mev / logmev on hand-supplied ln G_i) has to work on utility differences there;
#   mlevels - moderate ones for the nested / cross-nested formulas (nest parameter x scale x |level + u| stays < 400, far
#             inside the range of exp(): the library evaluates exp(mu_m V) as written).
_LEVELS = [
    ([800.0, -800.0, 1500.0, -1250.0], [45.0, -60.0]),
    ([750.0, -900.0, 2000.0, -1100.0], [30.0, -75.0]),
    ([1000.0, -760.0, 3000.0, -2500.0], [60.0, -40.0]),
    ([725.0, -1000.0, 1750.0, -1500.0], [55.0, -70.0]),
    ([900.0, -850.0, 1200.0, -5000.0], [35.0, -50.0]),
]
for _a, (_big, _mid) in zip(ALPHABETS, _LEVELS):
    _a['levels'] = _big
    _a['mlevels'] = _mid
# correction terms of the MEV models with correction for endogenous sampling (logarithms of sampling ratios; one of the
# three values is 0: a stratum sampled at rate one), per alphabet
_CORS = [[0.0, -0.9, 1.4], [0.7, 0.0, -1.6], [-0.35, 2.1, 0.0], [0.0, 1.25, -2.3], [-1.1, 0.0, 0.45]]
for _a, _c in zip(ALPHABETS, _CORS):
    _a['cors'] = _c
for _i, _a in enumerate(ALPHABETS):
    _a['_seed'] = _i


def alphabet(seed):
    return ALPHABETS[int(seed) % len(ALPHABETS)]


def ugrid_for(alph, J, n):
    """n utility values per alternative; alternative j gets the base grid + 0.05*j so that no two
    alternatives share a value (a mix-up of two alternatives changes the result)."""
    base = alph['ugrid']
    if n == 2:
        base = [base[0], base[3]]
    elif n == 3:
        base = [base[0], base[2], base[3]]
    return [[round(v + 0.05 * j, 6) for v in base] for j in range(J)]


def uvectors(alph, J, n):
    return [list(u) for u in itertools.product(*ugrid_for(alph, J, n))]


# --------------------------------------------------------------------------- row table
class Table:
    """Rows = groups x chosen alternative; a group is (utility vector, availability pattern, shift).
    Base groups (shift 0) come first; shifted groups refer to their base group."""

    def __init__(self, alts, us, pats, shifts=(), shift_us=()):
        self.alts = list(alts)
        self.us = [list(u) for u in us]
        self.pats = [list(p) for p in pats]      # lists of 0/1 in alts order
        self.shifts = list(shifts)
        self.groups = []
        base = {}
        for ui in range(len(self.us)):
            for pi in range(len(self.pats)):
                base[(ui, pi)] = len(self.groups)
                self.groups.append((ui, pi, 0.0))
        self.n_base = len(self.groups)
        self.base_of = list(range(self.n_base))
        for s in self.shifts:
            for ui in shift_us:
                for pi in range(len(self.pats)):
                    self.base_of.append(base[(ui, pi)])
                    self.groups.append((ui, pi, s))
        self._db = None

    def database(self, extra_cols=None):
        """extra_cols: additional data columns (user MEV: ln G_i per row), dict name -> list of row values."""
        if self._db is None or extra_cols:
            import pandas as pd
            import biogeme.database as bdb
            rows = []
            for ui, pi, s in self.groups:
                u = [v + s for v in self.us[ui]]
                for c in self.alts:
                    rows.append([0.0] + u + [c] + list(self.pats[pi]) + [7.0])
            cols = ['zz_unused'] + [f'U_{a}' for a in self.alts] + ['CH'] + [f'AV_{a}' for a in self.alts] + ['aa_unused']
            df = pd.DataFrame(rows, columns=cols, dtype=float)
            if extra_cols:
                for name, values in extra_cols.items():
                    df[name] = [float(v) for v in values]
                return bdb.Database('t05x', df)
            self._db = bdb.Database('t05', df)
        return self._db

    def describe_group(self, g):
        ui, pi, s = self.groups[g]
        return dict(u=self.us[ui], avail=self.pats[pi], shift=s)


# --------------------------------------------------------------------------- expression builders (real code)
def _beta(name, value, status):
    from biogeme.expressions import Beta
    return Beta(name, value, None, None, status)


def build_util(alts, form, u0):
    """utilities dict in `alts` order.  form: var | num | fixbeta | freebeta"""
    from biogeme.expressions import Variable, Numeric
    V = {}
    for k, a in enumerate(alts):
        if form == 'var':
            V[a] = Variable(f'U_{a}')
        elif form == 'num':
            V[a] = float(u0[k]) if k % 2 == 0 else Numeric(u0[k])
        elif form == 'fixbeta':
            V[a] = _beta(f'bu_{a}', u0[k], 1)
        elif form == 'freebeta':
            V[a] = _beta(f'bu_{a}', u0[k], 0)
        else:
            raise ValueError(form)
    return V


def build_av(alts, form, pat):
    """availability dict in *reversed* order (a positional zip with the utilities would mismatch)."""
    from biogeme.expressions import Variable, Numeric
    if form == 'none':
        return None
    av = {}
    for k in reversed(range(len(alts))):
        a = alts[k]
        if form == 'var':
            av[a] = Variable(f'AV_{a}')
        elif form == 'const':
            av[a] = int(pat[k])
        elif form == 'numeric':
            av[a] = Numeric(pat[k])
        else:
            raise ValueError(form)
    return av


def _param(form, name, value):
    from biogeme.expressions import Numeric
    if form == 'float':
        return float(value)
    if form == 'numeric':
        return Numeric(value)
    if form == 'fixbeta':
        return _beta(name, value, 1)
    if form == 'freebeta':
        return _beta(name, value, 0)
    raise ValueError(form)


def _nest_names(items, kind):
    """Names given to the nest objects.  The names carry no meaning for the model, so every naming must give the same
    probabilities: distinct names, no names (the library numbers unnamed nests by position), one name shared by all
    nests, and a nest object that was named by an earlier, smaller specification (object re-use across specifications).
    The mode rotates deterministically with the structure."""
    mode = (len(items) + sum(len(m) for _, m in items) + (0 if kind == 'nested' else 1)) % 4
    if mode == 0 or len(items) < 2:
        return [f'n{i}' for i in range(len(items))], mode
    if mode == 1:
        return [None] * len(items), mode
    if mode == 2:
        return ['nest'] * len(items), mode
    return [None] * len(items), 3


def build_nested_nests(alts, struct, mus, syntax='obj', pform='float', reg=None, suffix=''):
    """struct = (alone, nests); nests listed in reverse order and members reversed (order must not matter).
    reg: dict that receives the parameter objects by name; suffix: appended to the names of the parameters."""
    from biogeme.nests import OneNestForNestedLogit, NestsForNestedLogit
    alone, nests = struct
    items = []
    for k in reversed(range(len(nests))):
        p = _param(pform, f'mu_n{k}{suffix}', mus[k])
        if reg is not None:
            reg[f'mu_n{k}{suffix}'] = p
        members = list(reversed(nests[k]))
        items.append((p, members))
    if syntax == 'tuple':
        return tuple(items)
    names, mode = _nest_names(items, 'nested')
    objs = tuple(OneNestForNestedLogit(nest_param=p, list_of_alternatives=m, name=names[i]) for i, (p, m) in enumerate(items))
    if mode == 3:
        # the last nest object is first used alone (and named by that specification), then re-used here
        NestsForNestedLogit(choice_set=list(alts), tuple_of_nests=(objs[-1],))
    return NestsForNestedLogit(choice_set=list(alts), tuple_of_nests=objs)


def build_cnl_nests(alts, struct, mus, syntax='obj', pform='float', aform='float', reg=None, suffix=''):
    from biogeme.nests import OneNestForCrossNestedLogit, NestsForCrossNestedLogit
    alone, nests = struct
    items = []
    for k in reversed(range(len(nests))):
        p = _param(pform, f'mu_n{k}{suffix}', mus[k])
        if reg is not None:
            reg[f'mu_n{k}{suffix}'] = p
        al = {}
        for a in reversed(list(nests[k])):
            al[a] = _param(aform, f'alpha_{a}_n{k}{suffix}', nests[k][a])
        items.append((p, al))
    if syntax == 'tuple':
        return tuple(items)
    names, mode = _nest_names(items, 'cnl')
    objs = tuple(OneNestForCrossNestedLogit(nest_param=p, dict_of_alpha=al, name=names[i]) for i, (p, al) in enumerate(items))
    if mode == 3:
        NestsForCrossNestedLogit(choice_set=list(alts), tuple_of_nests=(objs[-1],))
    return NestsForCrossNestedLogit(choice_set=list(alts), tuple_of_nests=objs)


NESTED_MODELS = ['nested', 'lognested', 'nested_mev_mu', 'lognested_mev_mu']
CNL_MODELS = ['cnl', 'logcnl', 'cnlmu', 'logcnlmu']
# exported backward-compatible names of the same models (they must return exactly the model of the new name)
NESTED_ALIASES = ['nestedMevMu', 'lognestedMevMu']
CNL_ALIASES = ['cnl_avail', 'logcnl_avail']
# exported helpers returning the dict of ln G_i; '<mev|logmev>+<helper>' is the MEV model built by the user from them
NESTED_HELPERS = ['get_mev_for_nested', 'getMevForNested', 'get_mev_for_nested_mu', 'getMevForNestedMu']
CNL_HELPERS = ['get_mev_for_cross_nested', 'getMevForCrossNested', 'get_mev_for_cross_nested_mu', 'getMevForCrossNestedMu']
LOG_OF = {'loglogit': 'logit', 'lognested': 'nested', 'lognested_mev_mu': 'nested_mev_mu', 'logcnl': 'cnl',
          'logcnlmu': 'cnlmu', 'logmev': 'mev', 'lognestedMevMu': 'nestedMevMu', 'logcnl_avail': 'cnl_avail'}
LOG_OF.update({f'logmev+{h}': f'mev+{h}' for h in NESTED_HELPERS + CNL_HELPERS})
# MEV models with one more argument - a correction term added to V_i + ln G_i (correction for endogenous sampling): the
# probability function, its log function and their exported backward-compatible names; '<one of them>+<helper>' is the
# model built from the library's own ln G_i helper
ENDO_MODELS = ['mev_endogenous_sampling', 'logmev_endogenous_sampling']
ENDO_ALIASES = ['mev_endogenousSampling', 'logmev_endogenousSampling']
LOG_OF.update({'logmev_endogenous_sampling': 'mev_endogenous_sampling', 'logmev_endogenousSampling': 'mev_endogenousSampling'})
LOG_OF.update({f'logmev_endogenous_sampling+{h}': f'mev_endogenous_sampling+{h}' for h in NESTED_HELPERS + CNL_HELPERS})
# forms of the correction terms: numbers, a data column per alternative, Numeric, fixed Betas, numbers / Numeric
# alternating with an int 0 for a zero term, free Betas
CORR_FORMS = ['float', 'var', 'numeric', 'fixbeta', 'mixed', 'freebeta']


def is_endo(model):
    """entry points that take the dict of correction terms"""
    return model.split('+')[0] in ENDO_MODELS + ENDO_ALIASES


def build_correction(alts, form, corr):
    """dict of the correction terms; the alternatives are listed in an order of their own (rotated to the right: for
    J >= 3 it differs from the orders of the utilities, of the availabilities and of the ln G_i)."""
    from biogeme.expressions import Variable, Numeric
    out = {}
    idx = list(range(len(alts)))
    for n, k in enumerate(idx[-1:] + idx[:-1]):
        a, x = alts[k], float(corr[k])
        if form == 'float':
            out[a] = x
        elif form == 'numeric':
            out[a] = Numeric(x)
        elif form == 'mixed':
            out[a] = 0 if x == 0.0 else (x if n % 2 else Numeric(x))
        elif form == 'fixbeta':
            out[a] = _beta(f'bc_{a}', x, 1)
        elif form == 'freebeta':
            out[a] = _beta(f'bc_{a}', x, 0)
        elif form == 'var':
            out[a] = Variable(f'COR_{a}')
        else:
            raise ValueError(form)
    return out


def corr_columns(alts, corr, nrows):
    """the correction terms as data columns (the same value in every row)"""
    return {f'COR_{a}': [float(x)] * nrows for a, x in zip(alts, corr)}


def corr_vectors(alph, J, mode):
    """correction vectors (one term per alternative) over the 3-value grid of the alphabet (it holds 0: a stratum sampled
    at rate one).  'full': every assignment (3^J); 'reduced': the six arithmetic walks g[(r + k s) % 3], r in 0..2, s in
    1..2 (J = 2: every ordered pair of distinct values; no vector of equal terms)."""
    g = alph['cors']
    if mode == 'full':
        return [list(c) for c in itertools.product(g, repeat=J)]
    return [[g[(r + k * s) % 3] for k in range(J)] for s in (1, 2) for r in range(3)]


def uses_mu(model):
    """entry points that take the scale parameter mu"""
    return model.lower().endswith('mu')


def call_helper(helper, V, av, nests, mu=None):
    from biogeme import models
    if uses_mu(helper):
        return getattr(models, helper)(V, av, nests, mu)
    return getattr(models, helper)(V, av, nests)


def build_model(model, V, av, nests, choice, mu=None, log_gi=None, correction=None):
    from biogeme import models
    if '+' in model:
        # MEV model assembled by the user from the library's own ln G_i helper
        outer, helper = model.split('+')
        if log_gi is None:
            log_gi = call_helper(helper, V, av, nests, mu)
        if is_endo(outer):
            return getattr(models, outer)(V, log_gi, av, correction, choice)
        return getattr(models, outer)(V, log_gi, av, choice)
    if is_endo(model):
        return getattr(models, model)(V, log_gi, av, correction, choice)
    if model in ('logit', 'loglogit'):
        return getattr(models, model)(V, av, choice)
    if model in ('nested', 'lognested', 'cnl', 'logcnl', 'cnl_avail', 'logcnl_avail'):
        return getattr(models, model)(V, av, nests, choice)
    if model in ('nested_mev_mu', 'lognested_mev_mu', 'cnlmu', 'logcnlmu', 'nestedMevMu', 'lognestedMevMu'):
        return getattr(models, model)(V, av, nests, choice, mu)
    if model in ('mev', 'logmev'):
        return getattr(models, model)(V, log_gi, av, choice)
    raise ValueError(model)


def default_forms():
    return dict(u='var', av='var', ch='var', p='float', alpha='float', syntax='obj', mu='float')


def eval_spec(spec, table, extra_cols=None):
    """Builds the model of `spec` with the real library and evaluates it with the real engine on `table`.
    Returns an array (n_groups, J): value for group g, chosen alternative alts[j]."""
    import numpy as np
    from biogeme.expressions import Variable, Numeric

    alts = table.alts
    J = len(alts)
    f = dict(default_forms(), **spec.get('forms', {}))
    if spec.get('corr') is not None and f.get('corr') == 'var':
        extra_cols = dict(extra_cols or {}, **corr_columns(alts, spec['corr'], len(table.groups) * J))
    db = table.database(extra_cols)
    u0 = table.us[0]
    pat0 = table.pats[0]

    def build(choice):
        V = build_util(alts, f['u'], u0)
        av = build_av(alts, f['av'], pat0)
        kind = spec['kind']
        nests = None
        log_gi = None
        mu = None
        if kind == 'nested':
            nests = build_nested_nests(alts, (spec['alone'], spec['nests']), spec['mus'], f['syntax'], f['p'])
        elif kind == 'cnl':
            nests = build_cnl_nests(alts, (spec['alone'], spec['nests']), spec['mus'], f['syntax'], f['p'], f['alpha'])
        elif kind == 'usermev':
            log_gi = {}
            for a in alts[1:] + alts[:1]:          # rotated order
                log_gi[a] = Variable(f'LG_{a}')
        if spec.get('mu') is not None:
            mu = _param(f['mu'], 'mu_scale', spec['mu'])
        corr = None
        if spec.get('corr') is not None:
            corr = build_correction(alts, f.get('corr', 'float'), spec['corr'])
        return build_model(spec['model'], V, av, nests, choice, mu, log_gi, correction=corr)

    def run(expr, betas=None):
        vals = expr.get_value_c(database=db, betas=betas, prepare_ids=True)
        return np.asarray(vals, dtype=float).reshape(-1, J)

    def run_all_u(expr):
        if f['u'] != 'freebeta':
            return run(expr)
        # one expression, one evaluation per utility vector through the betas= dictionary
        out = None
        for ui, u in enumerate(table.us):
            for s in [0.0] + table.shifts:
                vals = run(expr, {f'bu_{a}': u[k] + s for k, a in enumerate(alts)})
                if out is None:
                    out = np.full(vals.shape, np.nan)
                for g, (gu, gp, gs) in enumerate(table.groups):
                    if gu == ui and gs == s:
                        out[g] = vals[g]
        return out

    if f['ch'] == 'var':
        return run_all_u(build(Variable('CH')))
    out = None
    for j, a in enumerate(alts):
        ch = a if f['ch'] == 'int' else Numeric(a)
        vals = run_all_u(build(ch))
        if out is None:
            out = np.full(vals.shape, np.nan)
        out[:, j] = vals[:, j]
    return out


# --------------------------------------------------------------------------- reference per table
def ref_spec_probs(spec, table):
    """Reference probabilities (n_groups, J) as nested lists: shifted groups copy their base group."""
    alts = table.alts
    kind = spec['kind']
    mu = spec.get('mu') or 1.0
    cache = {}
    out = []
    for g, (ui, pi, s) in enumerate(table.groups):
        key = (ui, pi)
        if key not in cache:
            V = dict(zip(alts, table.us[ui]))
            av = dict(zip(alts, table.pats[pi]))
            if kind == 'logit':
                P = R.logit_probs(V, av)
            elif kind == 'nested':
                P = R.nested_probs(V, av, list(zip(spec['mus'], spec['nests'])), spec['alone'], mu)
            elif kind == 'cnl':
                P = R.cnl_probs(V, av, list(zip(spec['mus'], spec['nests'])), spec['alone'], mu)
            elif kind == 'usermev':
                P = R.mev_probs(gfun_of(spec), V, av)
            else:
                raise ValueError(kind)
            if spec.get('corr') is not None:
                # MEV model with correction terms: the logit on V_i + ln G_i + correction_i
                P = R.endogenous_sampling_probs(P, dict(zip(alts, spec['corr'])))
            cache[key] = [P[a] for a in alts]
        out.append(cache[key])
    return out


def gfun_of(spec):
    g = spec['gen']
    mu = spec.get('gmu') or 1.0
    if g['type'] == 'nested':
        return lambda y: R.G_nested(y, list(zip(g['mus'], g['nests'])), g['alone'], mu)
    if g['type'] == 'cnl':
        return lambda y: R.G_cnl(y, list(zip(g['mus'], g['nests'])), g['alone'], mu)
    raise ValueError(g['type'])


def user_logGi_columns(spec, table):
    """ln G_i per row computed by the reference (forward-mode dual numbers on its own G) - these
    are the hand-supplied terms of the user MEV model; unavailable alternatives get an arbitrary 0."""
    alts = table.alts
    cols = {f'LG_{a}': [] for a in alts}
    G = gfun_of(spec)
    for ui, pi, s in table.groups:
        V = dict(zip(alts, [v + s for v in table.us[ui]]))
        av = dict(zip(alts, table.pats[pi]))
        lg = R.log_Gi(G, V, av)
        for _ in alts:
            for a in alts:
                cols[f'LG_{a}'].append(lg.get(a, 0.0))
    return cols


def nontrivial_group(spec, pat):
    """RULE: >= 2 available; MEV kinds: a nest with parameter != scale with >= 2 available members
    (nested) or any cross-nested membership / such a nest (cnl)."""
    alts = spec['alts']
    av = dict(zip(alts, pat))
    if sum(pat) < 2:
        return False
    if spec.get('corr') is not None and len({c for c, p in zip(spec['corr'], pat) if p}) < 2:
        # equal correction terms on the available alternatives: the model is the one without correction
        return False
    kind = spec['kind']
    if kind == 'logit':
        return True
    s = spec['gen'] if kind == 'usermev' else spec
    mu = (spec.get('gmu') if kind == 'usermev' else spec.get('mu')) or 1.0
    for mm, members in zip(s['mus'], s['nests']):
        if sum(1 for a in members if av[a]) >= 2 and mm != mu:
            return True
    return False


def shape_of(spec):
    """Normalised structure class for finding keys (coarse on purpose: one defect -> a handful of keys)."""
    kind = spec['kind']
    if kind == 'logit':
        return 'logit'
    s = spec['gen'] if kind == 'usermev' else spec
    tag = 'alone=' + ('yes' if s['alone'] else 'no')
    if kind == 'usermev':
        tag = 'G=' + s['type'] + ',' + tag
    return tag


HIST_TAG = 'after-earlier-calls-with-the-same-argument-objects'
# histories in which a call takes one of its arguments from a second set of objects (the others are the shared ones), and
# histories that change the values of the parameter objects after expressions were built with them
ARGS_TAG = 'after-earlier-calls-sharing-some-of-the-argument-objects'
SET_TAG = 'after-a-change-of-the-parameter-values-on-the-live-objects'


def key_tail(spec):
    """last part of the finding key: structure class + forms class; for a call that is not the first one of a history
    made on shared argument objects, the history class instead."""
    h = spec.get('hist')
    if h and h.get('later'):
        return h.get('tag') or HIST_TAG
    if spec.get('evaluator'):
        # evaluation without a database: the expression tree is the one the engine gets (a defect of a model function
        # shows under the engine keys); what is specific here is the evaluator, whose defects show in every structure
        return evaluator_tag(spec)[1:]
    return f'{shape_of(spec)}|{forms_tag(spec)}'


def evaluator_tag(spec):
    """part of the finding key naming the evaluation entry point when it is not the engine on a database"""
    ev = spec.get('evaluator')
    return f'|evaluator={EVALUATOR_NAMES[ev]}' if ev else ''


def key_model(spec):
    """model part of the finding key: the entry point; for a later call of a history the family of the entry point
    (a side effect of one call shows in every entry point called afterwards: one defect, a handful of keys); the family
    as well for an evaluation without a database (a defect of an evaluator shows in every entry point)"""
    m = spec['model']
    h = spec.get('hist')
    if not (h and h.get('later')) and not spec.get('evaluator'):
        return m
    if m in ('logit', 'loglogit'):
        return 'logit-family'
    if m in ('mev', 'logmev') or m in ENDO_MODELS + ENDO_ALIASES:
        return 'user-mev-family'
    return 'cross-nested-family' if ('cnl' in m or 'cross' in m.lower()) else 'nested-family'


def forms_tag(spec):
    f = dict(default_forms(), **spec.get('forms', {}))
    d = default_forms()
    return 'forms=' + ('data-columns' if all(f[k] == d[k] for k in d) else 'constants-or-betas')


# --------------------------------------------------------------------------- oracle
def check_values(spec, table, vals, ref, rec, log_model=False, collect=None):
    """All clauses of the property for one evaluated model.  vals: array (groups, J)."""
    import numpy as np
    alts = table.alts
    J = len(alts)
    model = spec['model']
    P = np.exp(vals) if log_model else vals
    refa = np.asarray(ref, dtype=float)
    A = np.asarray([table.pats[pi] for (_, pi, _) in table.groups], dtype=float)

    def emit(clause, g, detail, expected, observed):
        grp = table.describe_group(g)
        key = f'{ID}|{clause}|{key_model(spec)}|{key_tail(spec)}'
        hist_txt = ''
        corr_txt = f', correction terms {spec["corr"]}' if spec.get('corr') is not None else ''
        if spec.get('hist'):
            case = dict(part='hist', hist=spec['hist'], group=grp)
            hist_txt = (f'; step {spec["hist"]["step"] + 1} of the history {spec["hist"]["history"]} ' +
                        {ARGS_TAG: 'whose calls share all but one of their argument objects',
                         SET_TAG: 'that changes the values of the parameter objects after expressions were built with them'
                         }.get(spec['hist'].get('tag'), 'made with the same argument objects'))
        else:
            case = dict(part='spec', spec=spec, group=grp, base=table.describe_group(table.base_of[g]))
        rec.violation(key, f'{clause}: model {model} {detail} at u={grp["u"]} avail={grp["avail"]} shift={grp["shift"]} '
                           f'(alts {alts}, structure alone={spec.get("alone")} nests={spec.get("nests")} mus={spec.get("mus")} '
                           f'mu={spec.get("mu")}{corr_txt}{hist_txt})', case, expected=expected, observed=observed)
        if collect is not None:
            collect.append(key)

    bad = np.zeros(len(table.groups), dtype=bool)
    # 1. finite, in [0,1]
    with np.errstate(invalid='ignore'):
        m = ~np.isfinite(P) | (P < -ABS) | (P > 1.0 + ABS)
    for g in np.nonzero(m.any(axis=1))[0]:
        emit('probability-outside-unit-interval', int(g), 'returns a value outside [0,1] or NaN', '0 <= P <= 1', P[g].tolist())
        bad[g] = True
    # 2. zero when unavailable
    m = (A == 0) & ~(np.nan_to_num(P, nan=1.0) == 0.0)
    for g in np.nonzero(m.any(axis=1) & ~bad)[0]:
        emit('nonzero-probability-of-unavailable-alternative', int(g), 'gives P > 0 to an unavailable alternative',
             (refa[g]).tolist(), P[g].tolist())
        bad[g] = True
    # 3. sum to one
    with np.errstate(invalid='ignore'):
        ssum = P.sum(axis=1)
        m = ~(np.abs(ssum - 1.0) <= 1e-10)
    for g in np.nonzero(m & ~bad)[0]:
        emit('probabilities-do-not-sum-to-one', int(g), f'sum = {ssum[g]!r}', 1.0, P[g].tolist())
        bad[g] = True
    # 4. closed form
    with np.errstate(invalid='ignore'):
        m = ~(np.abs(P - refa) <= ABS + REL * np.maximum(np.abs(P), np.abs(refa)))
    if log_model:
        # compare the logarithms as well (relative on the log scale), -inf <-> 0
        with np.errstate(divide='ignore', invalid='ignore'):
            lref = np.log(refa)
            fin = np.isfinite(lref)
            m |= fin & ~(np.abs(vals - lref) <= ABS + REL * np.maximum(np.abs(vals), np.abs(lref)))
            m |= ~fin & ~(vals == lref)
    for g in np.nonzero(m.any(axis=1) & ~bad)[0]:
        emit('differs-from-closed-form', int(g), 'differs from the textbook closed-form probability',
             refa[g].tolist(), (vals[g] if log_model else P[g]).tolist())
        bad[g] = True
    # 5. shift invariance (engine vs engine)
    if table.n_base < len(table.groups):
        base = P[np.asarray(table.base_of)]
        with np.errstate(invalid='ignore'):
            m = ~(np.abs(P - base) <= ABS + 1e-9 * np.maximum(np.abs(P), np.abs(base)))
        for g in np.nonzero(m.any(axis=1) & ~bad)[0]:
            emit('changes-when-a-constant-is-added-to-all-utilities', int(g), 'is not invariant to a common shift',
                 base[g].tolist(), P[g].tolist())
            bad[g] = True
    return bad


def record_cases(spec, table, vals, bad, rec):
    """One case per availability pattern of this evaluated model (see RULE); the utility vectors,
    chosen alternatives and shifts under it are counted as evaluations."""
    h = hashlib.sha1(vals.tobytes()).hexdigest()[:16]
    rec.observe((spec['model'], h))
    n_groups = len(table.groups)
    per_pat = {}
    for g, (ui, pi, s) in enumerate(table.groups):
        per_pat.setdefault(pi, []).append(g)
    for pi, gs in per_pat.items():
        pat = table.pats[pi]
        nt = nontrivial_group(spec, pat)
        key = None
        if nt:
            key = [spec['model'], spec['alts'], spec.get('alone'), spec.get('nests'), spec.get('mus'),
                   spec.get('mu'), spec.get('gen'), spec.get('forms'), pat]
            if spec.get('hist'):
                key.append([spec['hist']['history'], spec['hist']['step']] +
                           ([spec['hist']['at']] if spec['hist'].get('at') is not None else []))
            if spec.get('evaluator'):
                key.append(spec['evaluator'])
            if spec.get('corr') is not None:
                key.append(['corr', spec['corr']])
            key = json.dumps(key, sort_keys=True, default=list)
        ok = not any(bad[g] for g in gs)
        if spec.get('evaluator'):
            rec.case(key, None, outcome=(spec['model'], sum(pat), nt, ok, spec['evaluator']))
        elif spec.get('hist'):
            rec.case(key, None, outcome=(spec['model'], sum(pat), nt, ok, 'history', len(spec['hist']['history']),
                                         bool(spec['hist'].get('later'))) +
                     ((spec['hist']['tag'],) if spec['hist'].get('tag') else ()))
        else:
            rec.case(key, None, outcome=(spec['model'], sum(pat), nt, ok))
        rec.evals += len(gs) - 1
    rec.count('probability_vectors_compared', n_groups)
    if spec.get('evaluator'):
        rec.count('probability_vectors_compared_' + spec['evaluator'], n_groups)
    else:
        rec.count('engine_calls')


def compare_log_pair(spec, table, vals_p, vals_l, rec):
    """log model == ln(probability model), engine vs engine."""
    import numpy as np
    with np.errstate(divide='ignore', invalid='ignore'):
        lp = np.log(vals_p)
        fin = np.isfinite(lp) & np.isfinite(vals_l)
        m = fin & ~(np.abs(lp - vals_l) <= ABS + REL * np.maximum(np.abs(lp), np.abs(vals_l)))
        m |= ~fin & ~(lp == vals_l)
    for g in np.nonzero(m.any(axis=1))[0][:1]:
        grp = table.describe_group(int(g))
        key = f'{ID}|log-model-differs-from-log-of-probability|{key_model(spec)}|{key_tail(spec)}'
        if spec.get('hist'):
            case = dict(part='hist', hist=spec['hist'], group=grp)
        else:
            case = dict(part='spec', spec=spec, group=grp, base=grp)
        rec.violation(key, f'{spec["model"]} != ln({LOG_OF[spec["model"]]}) at u={grp["u"]} avail={grp["avail"]}: '
                           f'{vals_l[g].tolist()} vs ln {vals_p[g].tolist()}',
                      case, expected=lp[g].tolist(), observed=vals_l[g].tolist())


def run_family(base_spec, models, table, rec, extra_cols=None, log_gi_groups=None):
    """Evaluates probability and log models of one structure / parameter point; all oracle clauses.
    A spec with an 'evaluator' entry is evaluated without a database (see pyeval_spec), the others by the engine on the
    table's database."""
    results = {}
    refs = {}
    for model, mu in models:
        spec = dict(base_spec, model=model)
        if mu is not None:
            spec['mu'] = mu
        if mu not in refs:
            refs[mu] = ref_spec_probs(spec, table)
        try:
            if spec.get('evaluator'):
                vals = pyeval_spec(spec, table, rec, log_gi_groups)
            else:
                vals = eval_spec(spec, table, extra_cols)
        except Exception as e:  # a valid specification must evaluate: report, do not crash the harness
            if isinstance(e, RuntimeError):
                rec.retire = True       # engine errors are sticky (DESIGN 3.1)
            grp = table.describe_group(0)
            rkey = (f'{ID}|model-raises-{type(e).__name__}|{key_model(spec)}|{key_tail(spec)}' if spec.get('evaluator') else
                    f'{ID}|model-raises-{type(e).__name__}|{model}|{shape_of(spec)}|{forms_tag(spec)}')
            rec.violation(rkey,
                          f'{model} raised {type(e).__name__}: {str(e)[:300]} for a valid specification (alts {table.alts}, '
                          f'alone={spec.get("alone")} nests={spec.get("nests")} mus={spec.get("mus")} mu={spec.get("mu")})',
                          dict(part='spec', spec=spec, group=grp, base=grp), expected='a probability', observed=repr(e)[:300])
            rec.case(None, ('raised', model, type(e).__name__), outcome=(model, 'raised'))
            continue
        is_log = model in LOG_OF
        bad = check_values(spec, table, vals, refs[mu], rec, log_model=is_log)
        record_cases(spec, table, vals, bad, rec)
        if not rec.samples and not is_log:
            # one written-out case: the first non-trivial group of this evaluation
            for g, (ui, pi, s_) in enumerate(table.groups):
                if nontrivial_group(spec, table.pats[pi]) or spec['kind'] == 'logit':
                    rec.sample(dict(model=model, alts=table.alts, alone=spec.get('alone'), nests=spec.get('nests'),
                                    mus=spec.get('mus'), mu=mu, forms=spec.get('forms', 'data columns'),
                                    utilities=table.us[ui], availability=table.pats[pi],
                                    engine=[float(v) for v in vals[g]], reference=[float(v) for v in refs[mu][g]]))
                    break
        results[(model, mu)] = (spec, vals)
    for (model, mu), (spec, vals) in results.items():
        if model in LOG_OF and (LOG_OF[model], mu) in results:
            compare_log_pair(spec, table, results[(LOG_OF[model], mu)][1], vals, rec)
    return results


# --------------------------------------------------------------------------- tasks
def _chunks(seq, n):
    seq = list(seq)
    return [seq[i:i + n] for i in range(0, len(seq), n)]


def cnl_config(tier):
    """(J, M, number of alpha splits, parameter assignments 'full'|'reduced', structures per task, scales 'one'|'both')"""
    if tier == 'quick':
        return [(2, 2, 3, 'full', 10, 'one'), (2, 3, 3, 'reduced', 12, 'one'), (3, 2, 3, 'reduced', 12, 'one')]
    return [(2, 2, 3, 'full', 10, 'both'), (2, 3, 3, 'full', 3, 'both'), (3, 2, 3, 'full', 4, 'both'),
            (3, 3, 3, 'reduced', 8, 'one'), (4, 2, 3, 'reduced', 6, 'one')]


def tasks(tier, seed):
    alph = alphabet(seed)
    quick = tier == 'quick'
    t = []
    Jmax = 3 if quick else 4
    # (A) logit, all forms
    for J in range(2, Jmax + 1):
        t.append(dict(part='logit', J=J, seed=seed, tier=tier))
    # (B) nested: every structure x every parameter assignment x scale; data-column forms
    for J in range(2, Jmax + 1):
        structs = R.nested_structures(alph['labels'][:J])
        per = {2: 5, 3: 3, 4: 1}[J]
        for ch in _chunks(range(len(structs)), per):
            if J == 4 and len(structs[ch[0]][1]) >= 3:
                for first in alph['mus']:
                    t.append(dict(part='nested', J=J, structs=ch, first=first, seed=seed, tier=tier))
            else:
                t.append(dict(part='nested', J=J, structs=ch, seed=seed, tier=tier))
    # (C) forms sweep (constants / Betas / None availabilities / constant choice / parameter forms), J <= 3
    for J in (2, 3):
        structs = R.nested_structures(alph['labels'][:J])
        for ch in _chunks(range(len(structs)), 2 if (J == 2 or not quick) else 3):
            t.append(dict(part='nested_forms', J=J, structs=ch, seed=seed, tier=tier))
    # (D) cnl
    for J, M, ns, pa, per, sc in cnl_config(tier):
        n = len(R.cnl_structures(alph['labels'][:J], M, alph['splits'][:ns]))
        for ch in _chunks(range(n), per):
            t.append(dict(part='cnl', J=J, M=M, ns=ns, pa=pa, sc=sc, structs=ch, seed=seed, tier=tier))
    for J, M in ([(2, 2)] if quick else [(2, 2), (3, 2)]):
        n = len(R.cnl_structures(alph['labels'][:J], M, alph['splits']))
        for ch in _chunks(range(n), 10):
            t.append(dict(part='cnl_forms', J=J, M=M, structs=ch, seed=seed, tier=tier))
    # (E) user-supplied MEV terms
    for J in range(2, Jmax + 1):
        ng = len(usermev_generators(alph, J))
        for ch in _chunks(range(ng), 12):
            t.append(dict(part='usermev', J=J, gens=ch, seed=seed, tier=tier))
    # (F) ordered
    for K in (2, 3, 4):
        for model in ('ordered_logit', 'ordered_probit'):
            t.append(dict(part='ordered', K=K, model=model, seed=seed, tier=tier))
    t.append(dict(part='ordered_tail', seed=seed, tier=tier))
    # (G) histories of calls on one set of argument objects; every exported entry point (aliases, ln G_i helpers)
    t += hist_tasks(alph, tier, seed)
    # (H) large common levels of the utilities through the engine; (I) formulas without data variables evaluated without a
    # database: Expression.get_value (Python evaluator) and Expression.get_value_c(), small shifts and levels
    for J in range(2, Jmax + 1):
        t.append(dict(part='levels', J=J, seed=seed, tier=tier))
    t += pyeval_tasks(alph, tier, seed)
    for K in (2, 3, 4):
        for ev in ('py', 'c0'):
            t.append(dict(part='ordered_nodb', K=K, ev=ev, seed=seed, tier=tier))
    # (F') ordered models over the parameter domain that the library declares (bounds of the threshold parameters)
    for K, entry, menus, vform in ordered_domain_plan(alph, tier, seed):
        for ms in ([menus] if K <= 4 else [[m] for m in menus]):
            t.append(dict(part='ordered_domain', K=K, entry=entry, menus=ms, vform=vform, seed=seed, tier=tier))
    # (J) MEV models with correction terms (mev_endogenous_sampling / logmev_endogenous_sampling and their old names)
    for J in range(2, Jmax + 1):
        for ch in _chunks(endo_gens(alph, J, tier, seed), 4 if J == 2 else 2):
            t.append(dict(part='endo', J=J, gens=list(ch), seed=seed, tier=tier))
    for fam, J, ns in (('nested', 2, 0), ('nested', 3, 0), ('cnl', 2, 3), ('cnl', 3, 1)):
        n = len(R.nested_structures(alph['labels'][:J]) if fam == 'nested' else
                R.cnl_structures(alph['labels'][:J], 2, alph['splits'][:ns]))
        sel = list(range(n))
        if quick and (fam, J) == ('cnl', 3):
            sel = [i for i in sel if (i + int(seed)) % 4 == 0]
        for ch in _chunks(sel, 6 if quick else 3):
            t.append(dict(part='endo_lib', fam=fam, J=J, ns=ns, structs=list(ch), seed=seed, tier=tier))
    return t


def std_table(alph, J, n_u, tier, aform='var', one_shift=False):
    alts = alph['labels'][:J]
    us = uvectors(alph, J, n_u)
    pats = [[p[a] for a in alts] for p in R.avail_patterns(alts)]
    if aform == 'none':
        pats = pats[:1]
    # shifted copies of the corner utility vectors (product of the two extreme grid values)
    corner = [i for i, u in enumerate(us) if all(v in (g[0], g[-1]) for v, g in zip(u, ugrid_for(alph, J, n_u)))]
    return Table(alts, us, pats, alph['shifts'][1:] if one_shift else alph['shifts'], corner)


def run_task(task):
    rec = Rec()
    part = task['part']
    alph = alphabet(task['seed'])
    if part == 'logit':
        _part_logit(task, alph, rec)
    elif part == 'nested':
        _part_nested(task, alph, rec)
    elif part == 'nested_forms':
        _part_nested_forms(task, alph, rec)
    elif part == 'cnl':
        _part_cnl(task, alph, rec)
    elif part == 'cnl_forms':
        _part_cnl_forms(task, alph, rec)
    elif part == 'usermev':
        _part_usermev(task, alph, rec)
    elif part == 'ordered':
        _part_ordered(task, alph, rec)
    elif part == 'ordered_tail':
        _part_ordered_tail(task, alph, rec)
    elif part == 'hist':
        _part_hist(task, alph, rec)
    elif part == 'levels':
        _part_levels(task, alph, rec)
    elif part == 'pyeval':
        _part_pyeval(task, alph, rec)
    elif part == 'ordered_nodb':
        _part_ordered_nodb(task, alph, rec)
    elif part == 'ordered_domain':
        _part_ordered_domain(task, alph, rec)
    elif part == 'endo':
        _part_endo(task, alph, rec)
    elif part == 'endo_lib':
        _part_endo_lib(task, alph, rec)
    else:
        raise ValueError(part)
    return rec.result()


def selfcheck_reference(spec, table, rec):
    """closed form vs dual-number route of the reference on the base groups of the table (harness error if they differ)."""
    kind = spec['kind']
    if kind not in ('nested', 'cnl'):
        return
    mu = spec.get('mu') or 1.0
    seen = set()
    for ui, pi, s in table.groups[:table.n_base]:
        if (ui, pi) in seen:
            continue
        seen.add((ui, pi))
        V = dict(zip(table.alts, table.us[ui]))
        av = dict(zip(table.alts, table.pats[pi]))
        d = R.selfcheck(V, av, list(zip(spec['mus'], spec['nests'])), spec['alone'], mu, kind)
        if not d <= 1e-13:
            raise RuntimeError(f'reference closed form and dual-number route disagree by {d} for {spec} {V} {av}')
    rec.count('reference_selfchecks', len(seen))


FORM_SWEEP = [
    # (utility form, availability form, choice form)
    ('num', 'const', 'var'), ('fixbeta', 'numeric', 'var'), ('freebeta', 'var', 'var'), ('var', 'none', 'var'),
    ('num', 'none', 'int'), ('var', 'var', 'int'), ('freebeta', 'const', 'numeric'), ('fixbeta', 'none', 'numeric'),
]


def tables_for_forms(alph, J, uf, af):
    """Small tables for the forms sweep: constant forms need one table per constant value."""
    alts = alph['labels'][:J]
    pats = [[p[a] for a in alts] for p in R.avail_patterns(alts)]
    us = uvectors(alph, J, 2)
    if uf in ('num', 'fixbeta'):
        us_sets = [[us[1]], [us[-2]]]
    elif uf == 'freebeta':
        us_sets = [[us[1], us[-2]]]
    else:
        us_sets = [us]
    if af == 'none':
        pat_sets = [pats[:1]]
    elif af in ('const', 'numeric'):
        pat_sets = [[p] for p in pats]
    else:
        pat_sets = [pats]
    out = []
    for uu in us_sets:
        for pp in pat_sets:
            shift_us = [0] if uf == 'var' else []
            out.append(Table(alts, uu, pp, alph['shifts'][:1] if shift_us else [], shift_us))
    return out


def _part_logit(task, alph, rec):
    J = task['J']
    alts = alph['labels'][:J]
    base = dict(kind='logit', alts=alts)
    table = std_table(alph, J, 4, task['tier'])
    run_family(base, [('logit', None), ('loglogit', None)], table, rec)
    rec.sample(dict(part='logit', alts=alts, rows=len(table.groups) * J))
    for uf, af, cf in FORM_SWEEP:
        for table in tables_for_forms(alph, J, uf, af):
            run_family(dict(base, forms=dict(u=uf, av=af, ch=cf)), [('logit', None), ('loglogit', None)], table, rec)


def _scales(alph, tier):
    """quick: the scale != 1 only (scale = 1 is compared with the unscaled model by C06); thorough: both."""
    return alph['scale'][1:] if tier == 'quick' else alph['scale']


def _nested_models(alph, tier='thorough'):
    ms = [('nested', None), ('lognested', None)]
    for mu in _scales(alph, tier):
        ms += [('nested_mev_mu', mu), ('lognested_mev_mu', mu)]
    return ms


def _cnl_models(alph, tier='thorough'):
    ms = [('cnl', None), ('logcnl', None)]
    for mu in _scales(alph, tier):
        ms += [('cnlmu', mu), ('logcnlmu', mu)]
    return ms


def _part_nested(task, alph, rec):
    J = task['J']
    tier = task['tier']
    alts = alph['labels'][:J]
    structs = R.nested_structures(alts)
    n_u = 4 if J <= 3 else 3
    table = std_table(alph, J, n_u, tier)
    for si in task['structs']:
        alone, nests = structs[si]
        for mus in itertools.product(alph['mus'], repeat=len(nests)):
            if task.get('first') is not None and mus[0] != task['first']:
                continue
            base = dict(kind='nested', alts=alts, alone=list(alone), nests=[list(n) for n in nests], mus=list(mus))
            for mu in [None] + alph['scale'][1:]:
                selfcheck_reference(dict(base, mu=mu), table, rec)
            run_family(base, _nested_models(alph, tier), table, rec)
        rec.sample(dict(part='nested', alts=alts, alone=alone, nests=nests, rows=len(table.groups) * J))


PFORMS = ['numeric', 'fixbeta', 'freebeta', 'float']
MUFORMS = ['float', 'fixbeta', 'numeric', 'freebeta']
ALPHAFORMS = ['numeric', 'fixbeta', 'float']


def forms_for(si, n):
    """n consecutive entries of the form sweep, rotating with the structure index (every combination
    of FORM_SWEEP meets every structure class over the enumeration; J = 2 gets all of them)."""
    out = []
    for k in range(n):
        fi = (si * n + k) % len(FORM_SWEEP)
        uf, af, cf = FORM_SWEEP[fi]
        out.append(dict(u=uf, av=af, ch=cf, p=PFORMS[(fi + si) % 4], mu=MUFORMS[(fi + si // 2) % 4],
                        alpha=ALPHAFORMS[(fi + si) % 3]))
    return out


def other_entry_points(kind, k, scale):
    """(model, mu) list: the backward-compatible names and the MEV model (probability and log) assembled from one of the
    four ln G_i helpers, the helper rotating with k"""
    aliases, helpers = (NESTED_ALIASES, NESTED_HELPERS) if kind == 'nested' else (CNL_ALIASES, CNL_HELPERS)
    h = helpers[k % len(helpers)]
    ms = [f'mev+{h}', f'logmev+{h}'] + aliases
    return [(m, scale if uses_mu(m) else None) for m in ms]


def _part_nested_forms(task, alph, rec):
    J = task['J']
    tier = task['tier']
    alts = alph['labels'][:J]
    structs = R.nested_structures(alts)
    nforms = len(FORM_SWEEP) if (J == 2 or tier == 'thorough') else 2
    models = [('nested', None), ('lognested', None), ('nested_mev_mu', alph['scale'][1]), ('lognested_mev_mu', alph['scale'][1])]
    for si in task['structs']:
        alone, nests = structs[si]
        # parameter assignment rotates with the structure index
        mus = [alph['mus'][(si + k + 1) % 3] for k in range(len(nests))]
        base = dict(kind='nested', alts=alts, alone=list(alone), nests=[list(n) for n in nests], mus=mus)
        for k, forms in enumerate(forms_for(si, nforms)):
            for table in tables_for_forms(alph, J, forms['u'], forms['av']):
                run_family(dict(base, forms=forms), models, table, rec)
                # the other exported entry points of the same models (backward-compatible names; MEV model assembled from
                # the ln G_i helpers), nests given in the old tuple syntax or as objects
                run_family(dict(base, forms=dict(forms, syntax=('tuple', 'obj')[(si + k) % 2])),
                           other_entry_points('nested', si + k, alph['scale'][1]), table, rec)
    rec.sample(dict(part='nested_forms', alts=alts, structures=task['structs']))


def _cnl_mus(alph, M, mode):
    g = alph['mus']
    if mode == 'full':
        return list(itertools.product(g, repeat=M))
    if M == 2:
        return [(g[0], g[2]), (g[1], g[1]), (g[2], g[1])]
    # 3 nests, reduced: all equal, and the cyclic arrangements of the three distinct values
    return [(g[0],) * 3, (g[1],) * 3, (g[2],) * 3, (g[0], g[1], g[2]), (g[1], g[2], g[0]), (g[2], g[0], g[1])]


def _part_cnl(task, alph, rec):
    J, M = task['J'], task['M']
    tier = task['tier']
    alts = alph['labels'][:J]
    structs = R.cnl_structures(alts, M, alph['splits'][:task['ns']])
    n_u = {2: 4, 3: 3 if tier == 'thorough' else 2, 4: 2}[J]
    table = std_table(alph, J, n_u, tier, one_shift=(J == 4))
    mus_list = _cnl_mus(alph, M, task['pa'])
    for si in task['structs']:
        alone, nests = structs[si]
        for mi, mus in enumerate(mus_list):
            base = dict(kind='cnl', alts=alts, alone=list(alone), nests=[dict(n) for n in nests], mus=list(mus))
            if (si + mi) % 5 == 0:
                for mu in [None] + alph['scale'][1:]:
                    selfcheck_reference(dict(base, mu=mu), table, rec)
            run_family(base, _cnl_models(alph, 'quick' if task['sc'] == 'one' else 'thorough'), table, rec)
    rec.sample(dict(part='cnl', alts=alts, M=M, first=structs[task['structs'][0]], rows=len(table.groups) * J))


def _part_cnl_forms(task, alph, rec):
    J, M = task['J'], task['M']
    alts = alph['labels'][:J]
    structs = R.cnl_structures(alts, M, alph['splits'])
    models = [('cnl', None), ('logcnl', None), ('cnlmu', alph['scale'][1]), ('logcnlmu', alph['scale'][1])]
    for si in task['structs']:
        alone, nests = structs[si]
        mus = [alph['mus'][(si + k + 1) % 3] for k in range(M)]
        base = dict(kind='cnl', alts=alts, alone=list(alone), nests=[dict(n) for n in nests], mus=mus)
        for forms in forms_for(si, 1):
            for table in tables_for_forms(alph, J, forms['u'], forms['av']):
                run_family(dict(base, forms=forms), models, table, rec)
                run_family(dict(base, forms=dict(forms, syntax=('tuple', 'obj')[si % 2])),
                           other_entry_points('cnl', si, alph['scale'][1]), table, rec)
    rec.sample(dict(part='cnl_forms', alts=alts, M=M, structures=task['structs'][:3]))


def usermev_generators(alph, J):
    alts = alph['labels'][:J]
    gens = []
    for si, (alone, nests) in enumerate(R.nested_structures(alts)):
        if not nests:
            continue
        mus = [alph['mus'][(si + k + 1) % 3] for k in range(len(nests))]
        gens.append((dict(type='nested', alone=list(alone), nests=[list(n) for n in nests], mus=mus), alph['scale'][si % 2]))
    cn = R.cnl_structures(alts, 2, alph['splits'][:1], with_alone=(J == 2))
    for si, (alone, nests) in enumerate(cn):
        gens.append((dict(type='cnl', alone=list(alone), nests=[dict(n) for n in nests], mus=[alph['mus'][2], alph['mus'][1]]),
                     alph['scale'][(si + 1) % 2]))
    return gens


def _part_usermev(task, alph, rec):
    """mev / logmev with ln G_i supplied by the user as data columns (computed by the reference from a
    generating function the library does not know about)."""
    J = task['J']
    alts = alph['labels'][:J]
    gens = usermev_generators(alph, J)
    n_u = 3 if J <= 3 else 2
    for gi, (gen, gmu) in enumerate(gens):
        if gi not in task['gens']:
            continue
        for af in (('var', 'none') if gi % 3 == 0 else ('var',)):
            table = std_table(alph, J, n_u, task['tier'], aform=af)
            spec = dict(kind='usermev', alts=alts, gen=gen, gmu=gmu, forms=dict(av=af))
            cols = user_logGi_columns(spec, table)
            run_family(spec, [('mev', None), ('logmev', None)], table, rec, extra_cols=cols)
    rec.sample(dict(part='usermev', alts=alts, generating_functions=len(gens)))


# --------------------------------------------------------------------------- MEV models with correction terms
# models.mev_endogenous_sampling / logmev_endogenous_sampling (and their exported backward-compatible names) are MEV models
# built from user-supplied generating terms with one more argument: a correction term per alternative that is added to
# V_i + ln G_i.  The clauses of the statement apply to them as they stand; the reference is the logit on
# V_i + ln G_i + correction_i over the available alternatives (R.endogenous_sampling_probs on the MEV probabilities).

def endo_gens(alph, J, tier, seed):
    """indices of the generating functions used: J = 2 all; J = 3 every third, rotating with the seed (quick) / all;
    J = 4 every fifth"""
    n = len(usermev_generators(alph, J))
    if J == 4:
        return [g for g in range(n) if g % 5 == 0]
    if J == 3 and tier == 'quick':
        return [g for g in range(n) if (g + int(seed)) % 3 == 0]
    return list(range(n))


def _part_endo(task, alph, rec):
    """the four entry points on hand-supplied ln G_i columns (computed by the reference from a generating function the
    library does not know about), through the engine: every utility vector x availability pattern, small shifts and the
    large common levels, every correction vector of the tier, the form of the correction terms rotating"""
    J, tier = task['J'], task['tier']
    alts = alph['labels'][:J]
    gens = usermev_generators(alph, J)
    vecs = corr_vectors(alph, J, 'full' if (J == 2 or (tier == 'thorough' and J == 3)) else 'reduced')
    for gi in task['gens']:
        gen, gmu = gens[gi]
        af = ('var', 'none', 'var')[gi % 3]
        table = level_table(alph, J, 2, af, alph['levels'], two_shifted=True)
        spec0 = dict(kind='usermev', alts=alts, gen=gen, gmu=gmu, lg='homogeneous')
        cols = user_logGi_columns_h(spec0, table)
        for ci, corr in enumerate(vecs):
            forms = dict(av=af, corr=CORR_FORMS[(gi + ci) % len(CORR_FORMS)])
            # the backward-compatible names: with every correction vector of the reduced set, every third one of the full set
            models = ENDO_MODELS + (ENDO_ALIASES if (len(vecs) <= 9 or ci % 3 == gi % 3) else [])
            run_family(dict(spec0, forms=forms, corr=corr), [(m, None) for m in models], table, rec, extra_cols=cols)
    rec.sample(dict(part='endo', alts=alts, generating_functions=len(task['gens']), correction_vectors=len(vecs),
                    first_vectors=vecs[:3]))


def _part_endo_lib(task, alph, rec):
    """the probability / log-probability pair fed with the dict of ln G_i returned by the library's own helpers
    (get_mev_for_nested[_mu], get_mev_for_cross_nested[_mu] and their camelCase names, rotating), nested structures and
    two-nest cross-nested structures, nests as objects or in the tuple syntax"""
    J, tier, fam = task['J'], task['tier'], task['fam']
    alts = alph['labels'][:J]
    sc = alph['scale'][1]
    helpers = NESTED_HELPERS if fam == 'nested' else CNL_HELPERS
    structs = R.nested_structures(alts) if fam == 'nested' else R.cnl_structures(alts, 2, alph['splits'][:task['ns']])
    vecs = corr_vectors(alph, J, 'full' if (tier == 'thorough' and J == 2) else 'reduced')
    for si in task['structs']:
        alone, nests = structs[si]
        if not nests:
            continue
        mus = [alph['mus'][(si + k + 1) % 3] for k in range(len(nests))]
        base = dict(kind=fam, alts=alts, alone=list(alone), nests=[(list(n) if fam == 'nested' else dict(n)) for n in nests],
                    mus=mus)
        for ci, corr in enumerate(vecs):
            if tier == 'quick' and (ci + si) % 2:
                continue
            h = helpers[(si + ci) % len(helpers)]
            af = ('var', 'var', 'none')[(si + ci) % 3]
            forms = dict(av=af, corr=CORR_FORMS[(si + 2 * ci) % len(CORR_FORMS)], syntax=('obj', 'tuple')[(si + ci) % 2],
                         p=PFORMS[(si + ci) % 4], mu=MUFORMS[ci % 4])
            table = std_table(alph, J, 2, tier, aform=af, one_shift=True)
            models = [(f'{o}+{h}', sc if uses_mu(h) else None) for o in ENDO_MODELS]
            run_family(dict(base, forms=forms, corr=corr), models, table, rec)
    rec.sample(dict(part='endo_lib', family=fam, alts=alts, structures=task['structs'][:3], correction_vectors=len(vecs)))


# --------------------------------------------------------------------------- histories of calls on shared arguments
# The model functions are pure: what a call returns depends on the values of its arguments only, not on the calls made
# before with the same dict of utilities / dict of availabilities / nest object / dict of ln G_i / parameter objects
# (the usual simulation loop ``{i: models.nested(V, av, nests, i) for i in V}``, or a probability followed by its
# log-probability).  One history = a sequence of calls made with ONE set of argument objects; every expression is
# evaluated after all the calls were made and must satisfy every clause of the property.

def hist_entries(kind):
    """the entry points that can be called with the argument objects of a context of this kind"""
    out = ['logit', 'loglogit']
    if kind == 'nested':
        out += NESTED_MODELS + NESTED_ALIASES + [f'{o}+{h}' for h in NESTED_HELPERS for o in ('mev', 'logmev')]
    elif kind == 'cnl':
        out += CNL_MODELS + CNL_ALIASES + [f'{o}+{h}' for h in CNL_HELPERS for o in ('mev', 'logmev')]
    else:
        out += ['mev', 'logmev']
    return out


def hist_core_entries(kind):
    """reduced alphabet of the depth-3 histories"""
    if kind == 'nested':
        return ['loglogit', 'nested', 'lognested', 'lognested_mev_mu', 'nestedMevMu', 'mev+get_mev_for_nested']
    if kind == 'cnl':
        return ['logit', 'cnl', 'logcnl', 'cnlmu', 'logcnl_avail', 'logmev+get_mev_for_cross_nested_mu']
    return ['logit', 'loglogit', 'mev', 'logmev']


def hist_endo_entries(kind):
    """(entry points taking the dict of correction terms, entry points without correction they are paired with)"""
    if kind == 'usermev':
        return ENDO_MODELS + ENDO_ALIASES, ['mev', 'logmev', 'loglogit']
    hs, old = ((NESTED_HELPERS, ['nested', 'lognested_mev_mu', 'logmev+get_mev_for_nested']) if kind == 'nested' else
               (CNL_HELPERS, ['logcnl', 'cnlmu', 'mev+get_mev_for_cross_nested_mu']))
    return [f'{o}+{h}' for h in (hs[0], hs[2]) for o in ENDO_MODELS], old


def _with_two(structs, pick):
    """indices of the structures in which some nest holds >= 2 alternatives"""
    return [i for i, (_, nests) in enumerate(structs) if any(len(n) >= 2 for n in nests)]


def _rot(seq, start, n):
    """n entries of seq, evenly spread, starting at a position that rotates with the seed"""
    seq = list(seq)
    if n >= len(seq):
        return seq
    step = max(1, len(seq) // n)
    return [seq[(start + k * step) % len(seq)] for k in range(n)]


def hist_contexts(alph, tier, seed):
    """The contexts (structure, parameters, forms) on which the histories are enumerated.
    quick: nested: every J=2 structure with a nest + 3 J=3 structures with a nest of >= 2 alternatives; cnl (2 nests):
    3 J=2 + 2 J=3 structures with a cross membership; user MEV (4 entry points): every J=2 generator, every third J=3.
    thorough: every J<=3 nested structure with a nest + 3 J=4; cnl: 10 J=2 + 8 J=3 + 2 J=4; user MEV: every generator
    J <= 3, every fifth J=4."""
    quick = tier == 'quick'
    seed = int(seed)
    out = []
    sc = alph['scale'][1]
    n = 0
    for J in (2, 3) if quick else (2, 3, 4):
        alts = alph['labels'][:J]
        structs = R.nested_structures(alts)
        idx = [i for i, (_, nests) in enumerate(structs) if nests]
        if J == 3 and quick:
            idx = _rot(_with_two(structs, 0), seed, 3)
        elif J == 4:
            idx = _rot(_with_two(structs, 0), seed, 3)
        for si in idx:
            alone, nests = structs[si]
            mus = [alph['mus'][1 + (si + k) % 2] for k in range(len(nests))]
            forms = dict(av=('var', 'none', 'var')[n % 3], syntax=('obj', 'tuple')[n % 2], p=PFORMS[(n + 1) % 4],
                         mu=MUFORMS[n % 4])
            out.append(dict(kind='nested', J=J, si=si, alone=list(alone), nests=[list(x) for x in nests], mus=mus, mu=sc,
                            forms=forms))
            n += 1
    for J, cnt in ((2, 3), (3, 2)) if quick else ((2, 10), (3, 8), (4, 2)):
        alts = alph['labels'][:J]
        structs = R.cnl_structures(alts, 2, alph['splits'][:1] if J > 2 else alph['splits'])
        cross = [i for i, (_, nests) in enumerate(structs) if sum(len(x) for x in nests) > J - len(structs[i][0])]
        for si in _rot(cross, seed, cnt):
            alone, nests = structs[si]
            mus = [alph['mus'][1 + (si + k) % 2] for k in range(2)]
            forms = dict(av=('var', 'var', 'none')[n % 3], syntax=('obj', 'tuple')[n % 2], p=PFORMS[(n + 1) % 4],
                         mu=MUFORMS[n % 4], alpha=ALPHAFORMS[n % 3])
            out.append(dict(kind='cnl', J=J, si=si, alone=list(alone), nests=[dict(x) for x in nests], mus=mus, mu=sc,
                            forms=forms))
            n += 1
    for J in (2, 3) if quick else (2, 3, 4):
        for gi, (gen, gmu) in enumerate(usermev_generators(alph, J)):
            if (J == 4 and gi % 5) or (quick and J == 3 and (gi + seed) % 3):
                continue
            out.append(dict(kind='usermev', J=J, si=gi, gen=gen, gmu=gmu, forms=dict(av=('var', 'none')[gi % 2])))
    return out


class HistContext:
    """One context: the table, the database, the reference values; new_args() builds one fresh set of argument objects."""

    def __init__(self, alph, ctx, tier, seed):
        self.alph, self.ctx, self.tier, self.seed = alph, ctx, tier, seed
        self.kind = ctx['kind']
        self.J = ctx['J']
        self.alts = alph['labels'][:self.J]
        self.f = dict(default_forms(), **ctx.get('forms', {}))
        self.table = std_table(alph, self.J, 2, tier, aform=self.f['av'], one_shift=True)
        extra = user_logGi_columns(self.base_spec('mev'), self.table) if self.kind == 'usermev' else None
        if ctx.get('corr') is not None and self.f.get('corr') == 'var':
            extra = dict(extra or {}, **corr_columns(self.alts, ctx['corr'], len(self.table.groups) * self.J))
        self.db = self.table.database(extra)
        self._refs = {}
        self._views = {}

    def base_spec(self, model):
        c = self.ctx
        if model in ('logit', 'loglogit'):
            return dict(kind='logit', alts=self.alts, forms=dict(av=self.f['av']), model=model)
        if self.kind == 'usermev':
            spec = dict(kind='usermev', alts=self.alts, gen=c['gen'], gmu=c['gmu'], forms=c['forms'], model=model)
        else:
            spec = dict(kind=self.kind, alts=self.alts, alone=c['alone'], nests=c['nests'], mus=c['mus'], forms=c['forms'],
                        model=model)
            if uses_mu(model):
                spec['mu'] = c['mu']
        if is_endo(model):
            spec['corr'] = c['corr']
        return spec

    def ref(self, spec, dev=None):
        k = (spec['kind'], json.dumps(spec.get('mus')), spec.get('mu'), spec.get('corr') is not None,
             dev if dev in ('V1', 'V2', 'A1') else None)
        if k not in self._refs:
            self._refs[k] = ref_spec_probs(spec, self.view(dev))
        return self._refs[k]

    def new_args(self):
        from biogeme.expressions import Variable
        c, f, alts = self.ctx, self.f, self.alts
        A = dict(V=build_util(alts, 'var', self.table.us[0]), av=build_av(alts, f['av'], self.table.pats[0]),
                 nests=None, mu=None, log_gi=None, choice=Variable('CH'), params={}, second={})
        if self.kind == 'nested':
            A['nests'] = build_nested_nests(alts, (c['alone'], c['nests']), c['mus'], f['syntax'], f['p'], reg=A['params'])
        elif self.kind == 'cnl':
            A['nests'] = build_cnl_nests(alts, (c['alone'], c['nests']), c['mus'], f['syntax'], f['p'], f['alpha'],
                                         reg=A['params'])
        else:
            A['log_gi'] = {a: Variable(f'LG_{a}') for a in alts[1:] + alts[:1]}
        if self.kind != 'usermev':
            A['mu'] = _param(f['mu'], 'mu_scale', c['mu'])
            A['params']['mu_scale'] = A['mu']
        if c.get('corr') is not None:
            A['correction'] = build_correction(alts, f.get('corr', 'float'), c['corr'])
        return A

    # ---- a second set of argument objects: a call of a history takes ONE of its arguments from it, the others are shared
    def dev_constants(self):
        """(constant of the second dict of utilities 'the same + a constant'; factor and per-alternative constants of the
        second dict 'another specification')"""
        return self.alph['shifts'][0], 0.5, [self.alph['diffs'][k % 3] for k in range(self.J)]

    def dev_mus(self):
        """nest parameters of the second nest object: the next value of the alphabet's grid for every nest"""
        g = self.alph['mus']
        return [g[(g.index(m) + 1) % len(g)] for m in self.ctx['mus']]

    def args_for(self, A, dev):
        """(V, av, nests) of a call: the shared objects, one of them replaced by the object `dev` of the second set:
        V1 - another dict of utilities: the same utilities plus one constant; V2 - another dict of utilities: another
        specification b U_i + c_i; N1 - another nest object: the same structure, other parameter values, its own parameter
        objects; A1 - another availability argument: None where the shared one is a dict, a dict where it is None"""
        from biogeme.expressions import Variable, Numeric
        V, av, nests = A['V'], A['av'], A['nests']
        if dev is None:
            return V, av, nests
        c, f, alts = self.ctx, self.f, self.alts
        if dev not in A['second']:
            shift, b, cs = self.dev_constants()
            if dev == 'V1':
                obj = {a: (Variable(f'U_{a}') + (shift if k % 2 else Numeric(shift))) for k, a in enumerate(alts)}
            elif dev == 'V2':
                obj = {a: b * Variable(f'U_{a}') + cs[k] for k, a in enumerate(alts)}
            elif dev == 'A1':
                obj = build_av(alts, 'var', self.table.pats[0]) if f['av'] == 'none' else None
            elif dev == 'N1':
                build = build_nested_nests if self.kind == 'nested' else build_cnl_nests
                extra = (f['alpha'],) if self.kind == 'cnl' else ()
                obj = build(alts, (c['alone'], c['nests']), self.dev_mus(), f['syntax'], f['p'], *extra, suffix='b')
            else:
                raise ValueError(dev)
            A['second'][dev] = obj
        obj = A['second'][dev]
        if dev in ('V1', 'V2'):
            return obj, av, nests
        if dev == 'A1':
            return V, obj, nests
        return V, av, obj

    def view(self, dev):
        """the table as the call sees it: the utilities of the second dict, every alternative available under A1"""
        if dev not in ('V1', 'V2', 'A1'):
            return self.table
        if dev not in self._views:
            import copy
            t = copy.copy(self.table)
            shift, b, cs = self.dev_constants()
            if dev == 'V1':
                t.us = [[u + shift for u in us] for us in self.table.us]
            elif dev == 'V2':
                t.us = [[b * u + cs[k] for k, u in enumerate(us)] for us in self.table.us]
            else:
                t.pats = [[1] * self.J for _ in self.table.pats]
            self._views[dev] = t
        return self._views[dev]

    # ---- values of the parameter objects
    def param_names(self):
        """(names of the nest parameters, name of the scale parameter) of the shared argument objects"""
        if self.kind == 'usermev':
            return [], None
        return [f'mu_n{k}' for k in range(len(self.ctx['mus']))], 'mu_scale'

    def param_form(self, name):
        return self.f['mu'] if name == 'mu_scale' else self.f['p']

    def param_state(self):
        """current values of the parameters of the shared argument objects"""
        nest_names, mu_name = self.param_names()
        st = {n: self.ctx['mus'][k] for k, n in enumerate(nest_names)}
        if mu_name:
            st[mu_name] = self.ctx['mu']
        return st

    def apply_set(self, A, how, point, history, built, state, betas):
        """One step '@set': the values `point` (name -> value) are given to the parameters
          how = 'expr'  - Expression.change_init_values(point) on every expression built so far in the history,
                'param' - change_init_values(point) on the parameter objects themselves,
                'nests' - through the nest object: correlation(parameters=point) (nested) / covariance(i, j, parameters=point)
                          (cross-nested; scipy's dblquad is owned: a one-point rule, the value of the integral is not used),
                'betas' - no object is changed: the dictionary is passed as betas= to every later evaluation.
        `state` (the reference's view of the current values) is updated by the documented semantics: a value reaches a
        parameter that is a Beta (fixed or free: 'The fact that the parameters are fixed or free is irrelevant here') and is
        reachable by the route; numbers / Numeric keep their value; betas= concerns the free parameters."""
        point = {str(n): float(v) for n, v in point.items()}
        nest_names, mu_name = self.param_names()
        is_beta = lambda n: self.param_form(n) in ('fixbeta', 'freebeta')
        reached = set()
        if how == 'param':
            for name, obj in A['params'].items():
                if hasattr(obj, 'change_init_values'):
                    obj.change_init_values(dict(point))
            reached = set(A['params'])
        elif how == 'expr':
            for k, exprs in built.items():
                step = history[k]
                for e in exprs:
                    e.change_init_values(dict(point))
                if step[0] not in ('logit', 'loglogit') and (len(step) < 4 or step[3] != 'N1'):
                    reached |= set(nest_names)
                if uses_mu(step[0]) and step[0] not in ('logit', 'loglogit'):
                    reached.add(mu_name)
        elif how == 'nests':
            if self.kind == 'nested':
                A['nests'].correlation(parameters=dict(point))
            else:
                import biogeme.nests as bn
                keep = bn.dblquad
                bn.dblquad = lambda func, a, b, gfun, hfun, *args, **kw: (float(func(0.5, 0.25)), 0.0)
                try:
                    A['nests'].covariance(self.alts[0], self.alts[1], dict(point))
                finally:
                    bn.dblquad = keep
            reached = set(nest_names)
        elif how == 'betas':
            betas.update({n: v for n, v in point.items() if n in state and self.param_form(n) == 'freebeta'})
        else:
            raise ValueError(how)
        for n, v in point.items():
            if n in state and n in reached and is_beta(n):
                state[n] = v
        for n, v in betas.items():      # a value passed with betas= has precedence over the value held by the object
            state[n] = v

    def call(self, model, A, choice, log_gi=None, dev=None):
        if model in ('mev', 'logmev') or model in ENDO_MODELS + ENDO_ALIASES:
            log_gi = A['log_gi']
        V, av, nests = self.args_for(A, dev)
        return build_model(model, V, av, nests, choice, A['mu'], log_gi, correction=A.get('correction'))

    def evaluate(self, expr, betas=None):
        import numpy as np
        vals = expr.get_value_c(database=self.db, betas=betas, prepare_ids=True)
        return np.asarray(vals, dtype=float).reshape(-1, self.J)


def is_call(step):
    return not str(step[0]).startswith('@')


def step_dev(step):
    """the object of the second set of argument objects that a call takes (None: every argument is the shared one)"""
    return step[3] if len(step) > 3 else None


def history_tag(history):
    """class of a history for the finding keys"""
    if any(not is_call(s) for s in history):
        return SET_TAG
    if any(step_dev(s) for s in history):
        return ARGS_TAG
    return HIST_TAG


def run_history(hc, history, rec, eval_all=False):
    """history = list of steps.
      [entry point, 'var' | 'loop', order(, dev)] - a call.  'var': one call, the choice is the data column; 'loop': one call
          per alternative in the given order with the alternative as constant choice (for a model assembled from a ln G_i
          helper the helper is called once and its dict is used by every call of the loop).  The calls are made with ONE set
          of argument objects; with dev = 'V1' | 'V2' | 'N1' | 'A1' the call takes that one argument from a second set of
          objects (see HistContext.args_for) and every other argument from the shared set.
      ['@set', how, point] - the values of the parameter objects are changed on the live objects (HistContext.apply_set).
      ['@eval'] - every expression built so far is evaluated and checked, with the values the parameters have at that point.
    All steps are made first; then the last expression(s) (all of them if eval_all or if the history changes parameter
    values, and the probability / log partner of the last one) are evaluated and checked against every clause, with the
    utilities / availabilities of their own call and the values that the parameters have then."""
    import numpy as np
    alts = hc.alts
    hist_case = dict(ctx=hc.ctx, history=history, seed=hc.seed, tier=hc.tier, eval_all=eval_all)
    tag = history_tag(history)
    calls = [k for k, s in enumerate(history) if is_call(s)]
    results = []        # (call index, index of the '@eval' step | None, values, parameter values at the evaluation)
    try:
        A = hc.new_args()
        state = hc.param_state()
        betas = {}
        built = {}

        def evaluate_calls(ks, at):
            for k in ks:
                model, mode, order = history[k][:3]
                if mode == 'var':
                    vals = hc.evaluate(built[k][0], dict(betas) or None)
                else:
                    vals = np.full((len(hc.table.groups), hc.J), np.nan)
                    for a, e in zip(order, built[k]):
                        j = alts.index(a)
                        vals[:, j] = hc.evaluate(e, dict(betas) or None)[:, j]
                results.append((k, at, vals, dict(state)))

        for k, step in enumerate(history):
            if step[0] == '@set':
                hc.apply_set(A, step[1], step[2], history, built, state, betas)
            elif step[0] == '@eval':
                evaluate_calls(sorted(built), k)
            else:
                model, mode, order = step[:3]
                dev = step_dev(step)
                if mode == 'var':
                    built[k] = [hc.call(model, A, A['choice'], dev=dev)]
                else:
                    lg = None
                    if '+' in model:
                        V_, av_, nests_ = hc.args_for(A, dev)
                        lg = call_helper(model.split('+')[1], V_, av_, nests_, A['mu'])
                    built[k] = [hc.call(model, A, a, lg, dev=dev) for a in order]
        last = calls[-1]
        same_args = lambda k: step_dev(history[k]) == step_dev(history[last])
        todo = [k for k in calls if eval_all or tag == SET_TAG or k == last or
                (same_args(k) and (LOG_OF.get(history[k][0]) == history[last][0] or LOG_OF.get(history[last][0]) == history[k][0]))]
        evaluate_calls(todo, None)
    except Exception as e:  # every history is made of valid calls
        if isinstance(e, RuntimeError):
            rec.retire = True
        grp = hc.table.describe_group(0)
        rec.violation(f'{ID}|model-raises-{type(e).__name__}|history|{tag}',
                      f'the history {history} of calls made with one set of argument objects raised {type(e).__name__}: '
                      f'{str(e)[:300]} (context {hc.ctx})',
                      dict(part='hist', hist=dict(hist_case, step=0, later=True, tag=tag), group=grp),
                      expected='probabilities', observed=repr(e)[:300])
        rec.case(None, ('raised', json.dumps(history), type(e).__name__), outcome=('history', 'raised'))
        return
    nest_names, mu_name = hc.param_names()
    specs = {}
    for n, (k, at, vals, st) in enumerate(results):
        model, mode, order = history[k][:3]
        dev = step_dev(history[k])
        later = len(history) > 1 or mode == 'loop'      # evaluated after every call of the history was made
        h = dict(hist_case, step=k, later=later)
        if tag != HIST_TAG:
            h['tag'] = tag
        if at is not None:
            h['at'] = at
        spec = dict(hc.base_spec(model), hist=h)
        if 'mus' in spec:
            # the values that the parameters of this call have when it is evaluated
            spec['mus'] = hc.dev_mus() if dev == 'N1' else [st[x] for x in nest_names]
            if spec.get('mu') is not None:
                spec['mu'] = st[mu_name]
        specs[n] = spec
        view = hc.view(dev)
        bad = check_values(spec, view, vals, hc.ref(spec, dev), rec, log_model=model in LOG_OF)
        record_cases(spec, view, vals, bad, rec)
    for n, (k, at, vals, st) in enumerate(results):
        pm = LOG_OF.get(history[k][0])
        if pm is None:
            continue
        for n2, (k2, at2, vals2, st2) in enumerate(results):
            if history[k2][0] == pm and at2 == at and step_dev(history[k2]) == step_dev(history[k]):
                # the pair spans two calls of the history: history class key
                sp = dict(specs[n], hist=dict(specs[n]['hist'], later=True))
                compare_log_pair(sp, hc.view(step_dev(history[k])), vals2, vals, rec)
    rec.count('histories')
    if tag != HIST_TAG:
        rec.count('histories_' + ('with_a_second_set_of_argument_objects' if tag == ARGS_TAG else 'changing_parameter_values'))


def _int_keys(obj):
    """a context read back from a replay file (JSON turned the alternative ids used as dict keys into strings)"""
    if isinstance(obj, dict):
        return {(int(k) if isinstance(k, str) and k.lstrip('-').isdigit() else k): _int_keys(v) for k, v in obj.items()}
    if isinstance(obj, list):
        return [_int_keys(v) for v in obj]
    return obj


def loop_orders(alts, tier):
    """call orders of the per-alternative loop: the rotations of the list of alternatives (every alternative at every
    position of the loop); thorough: every permutation for J <= 3"""
    if tier == 'thorough' and len(alts) <= 3:
        return [list(p) for p in itertools.permutations(alts)]
    return [list(alts[k:] + alts[:k]) for k in range(len(alts))]


def hist_histories(hc, task):
    E = hist_entries(hc.kind)
    sub = task['sub']
    loops = lambda ys: [[[E[y], 'loop', o]] for y in ys for o in loop_orders(hc.alts, hc.tier)]
    pairs = lambda xs: [[[E[x], 'var', None], [y, 'var', None]] for x in xs for y in E]
    if sub == 'loops':
        return loops(task['ys'])
    if sub == 'pairs':
        return pairs(task['xs'])
    if sub == 'small':
        return loops(range(len(E))) + pairs(range(len(E)))
    if sub == 'loop_pairs':
        # a whole loop, then a call of another entry point, and the other way round
        o = loop_orders(hc.alts, 'quick')[1]
        C = hist_core_entries(hc.kind)
        out = []
        for x in C:
            for y in C:
                out.append([[x, 'loop', o], [y, 'var', None]])
                out.append([[x, 'var', None], [y, 'loop', o]])
        return out
    if sub == 'endo':
        # the entry points that take correction terms, called before / after each other and before / after the entry
        # points without correction, with ONE dict of correction terms; their per-alternative loops
        new, old = hist_endo_entries(hc.kind)
        out = [[[x, 'loop', o]] for x in new for o in loop_orders(hc.alts, hc.tier)]
        for x in new + old:
            for y in new + old:
                if x in new or y in new:
                    out.append([[x, 'var', None], [y, 'var', None]])
        return out
    if sub == 'triples':
        C = hist_core_entries(hc.kind)
        return [[[C[x], 'var', None], [y, 'var', None], [z, 'var', None]] for x in task['xs'] for y in C for z in C]
    if sub == 'args':
        # a call with the shared argument objects, then a call that takes ONE argument from the second set of objects: every
        # ordered pair of entry points x every object of the second set (thorough: the other order as well)
        out = []
        for x in task['xs']:
            for y in E:
                for d in hist_devs(hc.kind, y, hc.tier):
                    out.append([[E[x], 'var', None], [y, 'var', None, d]])
                    if hc.tier == 'thorough':
                        out.append([[y, 'var', None, d], [E[x], 'var', None]])
        return out
    if sub == 'set':
        # the values of the parameter objects are changed after an expression was built with them
        X = [e for e in E if e not in ('logit', 'loglogit')]
        if hc.tier == 'quick':
            # the camelCase names of the ln G_i helpers are wrappers of the same functions: thorough only
            X = [e for e in X if '+' not in e or e.split('+')[1] == e.split('+')[1].lower()]
        C = [e for e in hist_core_entries(hc.kind) if e not in ('logit', 'loglogit')]
        pts = hist_points(hc)
        hp = [(how, q) for how in SET_HOWS for q in [set_point(hc, how, p) for p in pts] if q]
        hp0 = [(how, q) for how in SET_HOWS for q in [set_point(hc, how, pts[0])] if q]
        out = []
        shapes = task.get('shapes') or ['change', 'eval-change']
        if 'change' in shapes:
            out += [[[x, 'var', None], ['@set', how, q]] for x in X for how, q in hp]
        if 'eval-change' in shapes:
            out += [[[x, 'var', None], ['@eval'], ['@set', how, q]] for x in C for how, q in hp0]
        if 'change-call' in shapes:
            out += [[[x, 'var', None], ['@set', how, q], [y, 'var', None]] for x in C for y in C for how, q in hp
                    if how in ('expr', 'param')]
        if 'change-change' in shapes:
            hp1 = [(how, q) for how in SET_HOWS for q in [set_point(hc, how, pts[1])] if q]
            out += [[[x, 'var', None], ['@set', h1, q1], ['@set', h2, q2]] for x in C for h1, q1 in hp0 for h2, q2 in hp1]
        if 'loop-change' in shapes:
            o = loop_orders(hc.alts, 'quick')[1]
            out += [[[x, 'loop', o], ['@set', how, q]] for x in C for how, q in hp0]
        return out
    raise ValueError(sub)


SET_HOWS = ['expr', 'param', 'nests', 'betas']


def hist_devs(kind, y, tier):
    """objects of the second set of argument objects that a call of the entry point y can take (quick: the second dict of
    utilities 'the same plus a constant' only where it is the only possible one)"""
    if kind == 'usermev':
        return ['V1']       # the hand-supplied ln G_i are those of the data columns: the same utilities plus a constant only
    devs = ['V2', 'N1', 'A1'] if tier == 'quick' else ['V1', 'V2', 'N1', 'A1']
    return [d for d in devs if not (d == 'N1' and y in ('logit', 'loglogit'))]


def hist_points(hc):
    """new values of the parameters (name -> value): [every nest parameter moved to the next value of the alphabet's grid;
    every nest parameter moved to the value before and the scale moved to the other value of its grid]"""
    g, sc = hc.alph['mus'], hc.alph['scale']
    nest_names, mu_name = hc.param_names()
    rot = lambda m, r: g[(g.index(m) + r) % len(g)]
    pa = {n: rot(hc.ctx['mus'][k], 1) for k, n in enumerate(nest_names)}
    pb = {n: rot(hc.ctx['mus'][k], 2) for k, n in enumerate(nest_names)}
    pb[mu_name] = sc[0] if hc.ctx['mu'] != sc[0] else sc[1]
    return [pa, pb]


def set_point(hc, how, point):
    """the part of the point that the route `how` can give to the parameters of this context (None: nothing)"""
    nest_names, mu_name = hc.param_names()
    beta = lambda n: hc.param_form(n) in ('fixbeta', 'freebeta')
    if how == 'betas':
        q = {n: v for n, v in point.items() if hc.param_form(n) == 'freebeta'}
    elif how == 'nests':
        q = {n: v for n, v in point.items() if n in nest_names and beta(n)} if hc.f['syntax'] == 'obj' else {}
    else:
        q = dict(point) if any(beta(n) for n in point) else {}
    return q or None


def hist_new_contexts(alph, tier, seed):
    """indices of the contexts (nested, cross-nested) of the histories with a second set of argument objects and of the
    histories that change parameter values: contexts in which some nest holds two alternatives.
    quick: one nested and one cross-nested context, rotating with the seed; thorough: every fifth one"""
    ctxs = hist_contexts(alph, tier, seed)
    out = []
    for kind in ('nested', 'cnl'):
        cis = [ci for ci, c in enumerate(ctxs) if c['kind'] == kind and any(len(n) >= 2 for n in c['nests'])]
        two = [ci for ci in cis if len(ctxs[ci]['nests']) >= 2]
        if tier == 'quick':
            out += _rot(two or cis, int(seed), 1)
        else:
            out += cis[int(seed) % 5::5]
    return out


# forms of (nest parameters, scale) in the histories that change parameter values: every pair in which a nest parameter is
# a Beta (the parameters that are numbers cannot change)
SET_FORMS = [(pf, mf) for pf in ('fixbeta', 'freebeta') for mf in ('float', 'fixbeta', 'freebeta')]


def hist_tasks(alph, tier, seed):
    t = []
    quick = tier == 'quick'
    seen_kind = set()
    for ci, ctx in enumerate(hist_contexts(alph, tier, seed)):
        E = hist_entries(ctx['kind'])
        if len(E) <= 4:
            t.append(dict(part='hist', ci=ci, sub='small', seed=seed, tier=tier))
        else:
            t.append(dict(part='hist', ci=ci, sub='loops', ys=list(range(len(E))), seed=seed, tier=tier))
            for ch in _chunks(range(len(E)), 6 if quick else 3):
                t.append(dict(part='hist', ci=ci, sub='pairs', xs=ch, seed=seed, tier=tier))
        first = (ctx['kind'], ctx['J']) not in seen_kind
        seen_kind.add((ctx['kind'], ctx['J']))
        if not quick and first and ctx['J'] <= 3:
            t.append(dict(part='hist', ci=ci, sub='loop_pairs', seed=seed, tier=tier))
            C = hist_core_entries(ctx['kind'])
            for ch in _chunks(range(len(C)), 2):
                t.append(dict(part='hist', ci=ci, sub='triples', xs=ch, seed=seed, tier=tier))
    # histories whose calls do not share all their argument objects; histories that change the values of the parameters
    ctxs = hist_contexts(alph, tier, seed)
    for ci in hist_new_contexts(alph, tier, seed):
        E = hist_entries(ctxs[ci]['kind'])
        fo = dict(syntax='obj') if quick else {}
        for ch in _chunks(range(len(E)), 2 if quick else 1):
            t.append(dict(part='hist', ci=ci, sub='args', xs=ch, fo=fo, seed=seed, tier=tier))
        for pf, mf in SET_FORMS:
            for shapes in ([['change', 'eval-change']] if quick else
                           [['change'], ['eval-change', 'loop-change'], ['change-call'], ['change-change']]):
                t.append(dict(part='hist', ci=ci, sub='set', fo=dict(fo, p=pf, mu=mf), shapes=shapes, seed=seed, tier=tier))
    for J in (2, 3):
        cis = [ci for ci, c in enumerate(ctxs) if c['kind'] == 'usermev' and c['J'] == J]
        for ci in _rot(cis, int(seed), 1 if quick else 3):
            t.append(dict(part='hist', ci=ci, sub='args', xs=list(range(4)), fo={}, seed=seed, tier=tier))
    # histories with the entry points that take correction terms: the context gets one correction vector (rotating)
    for kind, cnt in (('usermev', 2), ('nested', 1), ('cnl', 1)):
        cis = [ci for ci, c in enumerate(ctxs) if c['kind'] == kind]
        # thorough: every third user-MEV context, every fourth nested / cross-nested context (start rotating with the seed)
        sel = _rot(cis, int(seed), cnt) if quick else cis[int(seed) % 3::(3 if kind == 'usermev' else 4)]
        for ci in sel:
            vecs = corr_vectors(alph, ctxs[ci]['J'], 'reduced')
            t.append(dict(part='hist', ci=ci, sub='endo', corr=vecs[(ci + int(seed)) % len(vecs)],
                          cform=CORR_FORMS[ci % len(CORR_FORMS)], seed=seed, tier=tier))
    return t


def _part_hist(task, alph, rec):
    ctx = hist_contexts(alph, task['tier'], task['seed'])[task['ci']]
    if task.get('corr') is not None:
        ctx = dict(ctx, corr=list(task['corr']), forms=dict(ctx.get('forms', {}), corr=task['cform']))
    if task.get('fo'):
        ctx = dict(ctx, forms=dict(ctx.get('forms', {}), **task['fo']))
    hc = HistContext(alph, ctx, task['tier'], task['seed'])
    eval_all = task['tier'] == 'thorough'
    hs = hist_histories(hc, task)
    for h in hs:
        run_history(hc, h, rec, eval_all)
    rec.sample(dict(part='hist', sub=task['sub'], context=ctx, histories=len(hs), first=hs[0], last=hs[-1]))


# --------------------------------------------------------------------------- evaluation without a database; large levels
# Formulas that hold no data variable (utilities given as numbers, Numeric, fixed / free Betas, Beta + Numeric) are evaluated
# by the user with Expression.get_value() - the pure-Python evaluator of every expression class, for the logit kernel
# LogLogit.get_value - or with Expression.get_value_c() without a database (the engine on one artificial row).  Both are
# further ways to "the probabilities computed for one observation"; the same clauses are demanded, against the same
# reference.  The common level of the utilities is part of the alphabet here: besides the small shifts, the large levels of
# the alphabet (beyond the range of exp()) for the models that are a logit kernel on the given terms (logit / loglogit,
# mev / logmev on hand-supplied ln G_i) and moderate levels for the nested / cross-nested formulas.
EVALUATOR_NAMES = {'py': 'Expression.get_value', 'c0': 'Expression.get_value_c(no-database)'}
PYINF_KEY = (f'{ID}|nonzero-probability-of-unavailable-alternative|Expression.get_value(python-evaluator)|'
             'logit-kernel-returns-plus-infinity-for-an-unavailable-chosen-alternative')

PY_FORM_SWEEP = [
    # (utility form, availability form, choice form, one set of argument objects for the J calls of an observation)
    ('beta+level', 'const', 'int', False), ('num', 'numeric', 'numeric', True), ('freebeta-reused', 'const', 'numeric', False),
    ('fixbeta', 'none', 'int', True), ('freebeta', 'numeric', 'int', False), ('beta+level', 'none', 'numeric', True),
    ('freebeta-reused', 'numeric', 'int', False), ('num', 'const', 'int', False),
]


# forms of the correction terms in a formula without data variables
PY_CORR_FORMS = ['mixed', 'float', 'fixbeta', 'numeric', 'freebeta']


def py_forms(k, si=0):
    uf, af, cf, shared = PY_FORM_SWEEP[k % len(PY_FORM_SWEEP)]
    return dict(u=uf, av=af, ch=cf, shared=shared, p=PFORMS[(k + si) % 4], mu=MUFORMS[(k + si // 2) % 4],
                alpha=ALPHAFORMS[(k + si) % 3], syntax=('obj', 'tuple')[(k + si) % 2])


def build_util_level(alts, form, u, s):
    """utilities without data variables at the common level s (the value is u + s, the sum the table rows hold).
    form: num | fixbeta | freebeta | freebeta-reused | beta+level (a Beta holding u plus a Numeric holding the level)"""
    from biogeme.expressions import Numeric
    V = {}
    for k, a in enumerate(alts):
        x = float(u[k]) + float(s)
        if form == 'num':
            V[a] = x if k % 2 == 0 else Numeric(x)
        elif form == 'fixbeta':
            V[a] = _beta(f'bu_{a}', x, 1)
        elif form in ('freebeta', 'freebeta-reused'):
            V[a] = _beta(f'bu_{a}', x, 0)
        elif form == 'beta+level':
            V[a] = _beta(f'bu_{a}', float(u[k]), k % 2) + Numeric(float(s))
        else:
            raise ValueError(form)
    return V


def level_table(alph, J, n_u, af, levels, two_shifted=False):
    """every utility vector x every availability pattern at level 0; the corner utility vectors (two mixed corners if
    two_shifted) again at every small shift and every level"""
    alts = alph['labels'][:J]
    us = uvectors(alph, J, n_u)
    pats = [[p[a] for a in alts] for p in R.avail_patterns(alts)]
    if af == 'none':
        pats = pats[:1]
    corner = [i for i, u in enumerate(us) if all(v in (g[0], g[-1]) for v, g in zip(u, ugrid_for(alph, J, n_u)))]
    if two_shifted:
        corner = [corner[1], corner[-2]]
    return Table(alts, us, pats, list(alph['shifts']) + list(levels), corner)


def user_logGi_groups(spec, table):
    """hand-supplied ln G_i per group of the table.  G is homogeneous of degree gmu, hence
    ln G_i(e^(V+s)) = ln G_i(e^V) + (gmu - 1) s: used for every level (the reference cannot form e^800); verified against the
    direct computation at the small shifts (harness error otherwise)."""
    alts = table.alts
    G = gfun_of(spec)
    gmu = spec.get('gmu') or 1.0
    base = {}
    out = []
    for ui, pi, s in table.groups:
        av = dict(zip(alts, table.pats[pi]))
        if (ui, pi) not in base:
            base[(ui, pi)] = R.log_Gi(G, dict(zip(alts, table.us[ui])), av)
        lg = {a: v + (gmu - 1.0) * s for a, v in base[(ui, pi)].items()}
        if s and abs(s) <= 15.0:
            direct = R.log_Gi(G, dict(zip(alts, [v + s for v in table.us[ui]])), av)
            if not all(abs(direct[a] - lg[a]) <= 1e-9 * max(1.0, abs(lg[a])) for a in lg):
                raise RuntimeError(f'reference: homogeneity of G violated: {direct} vs {lg} for {spec} shift {s}')
        out.append(lg)
    return out


def user_logGi_columns_h(spec, table):
    """the same terms as data columns (one row per group and chosen alternative)"""
    alts = table.alts
    cols = {f'LG_{a}': [] for a in alts}
    for lg in user_logGi_groups(spec, table):
        for _ in alts:
            for a in alts:
                cols[f'LG_{a}'].append(lg.get(a, 0.0))
    return cols


def pyeval_spec(spec, table, rec, log_gi_groups=None):
    """Builds the model of `spec` from constants / Betas for every (group, chosen alternative) of the table and evaluates it
    without a database: spec['evaluator'] = 'py' (Expression.get_value) or 'c0' (Expression.get_value_c()).
    Returns an array (n_groups, J) like eval_spec."""
    import warnings
    import numpy as np
    from biogeme.expressions import Numeric

    alts = table.alts
    J = len(alts)
    f = dict(default_forms(), **spec.get('forms', {}))
    ev = spec['evaluator']
    kind = spec['kind']
    reuse = f['u'] == 'freebeta-reused'

    def args(u, pat, s, lg):
        V = build_util_level(alts, f['u'], u, s)
        av = build_av(alts, f['av'], pat)
        nests = mu = log_gi = None
        if kind == 'nested':
            nests = build_nested_nests(alts, (spec['alone'], spec['nests']), spec['mus'], f['syntax'], f['p'])
        elif kind == 'cnl':
            nests = build_cnl_nests(alts, (spec['alone'], spec['nests']), spec['mus'], f['syntax'], f['p'], f['alpha'])
        elif kind == 'usermev':
            log_gi = {}
            for k, a in enumerate(alts[1:] + alts[:1]):          # rotated order
                x = float(lg.get(a, 0.0))
                log_gi[a] = _beta(f'lg_{a}', x, 0) if reuse else (x if k % 2 else Numeric(x))
        if spec.get('mu') is not None:
            mu = _param(f['mu'], 'mu_scale', spec['mu'])
        corr = None
        if spec.get('corr') is not None:
            corr = build_correction(alts, f.get('corr', 'float'), spec['corr'])
        return V, av, nests, mu, log_gi, corr

    def model_of(A, a):
        V, av, nests, mu, log_gi, corr = A
        return build_model(spec['model'], V, av, nests, a if f['ch'] == 'int' else Numeric(a), mu, log_gi, correction=corr)

    def value(expr):
        if ev == 'py':
            return float(expr.get_value())
        return float(expr.get_value_c(prepare_ids=True))

    vals = np.full((len(table.groups), J), np.nan)
    lgs = log_gi_groups if log_gi_groups is not None else [{}] * len(table.groups)
    with np.errstate(all='ignore'), warnings.catch_warnings():
        warnings.simplefilter('ignore')
        if reuse:
            # one expression per (availability pattern, chosen alternative); the values of its free Betas are changed
            # between the evaluations (Expression.change_init_values)
            for pi, pat in enumerate(table.pats):
                gs = [g for g, (_, p, _) in enumerate(table.groups) if p == pi]
                ui0, _, s0 = table.groups[gs[0]]
                for j, a in enumerate(alts):
                    expr = model_of(args(table.us[ui0], pat, s0, lgs[gs[0]]), a)
                    for g in gs:
                        ui, _, s = table.groups[g]
                        new = {f'bu_{b}': float(table.us[ui][k]) + float(s) for k, b in enumerate(alts)}
                        new.update({f'lg_{b}': float(v) for b, v in lgs[g].items()})
                        expr.change_init_values(new)
                        vals[g, j] = value(expr)
        else:
            for g, (ui, pi, s) in enumerate(table.groups):
                A = args(table.us[ui], table.pats[pi], s, lgs[g]) if f.get('shared') else None
                for j, a in enumerate(alts):
                    vals[g, j] = value(model_of(A or args(table.us[ui], table.pats[pi], s, lgs[g]), a))
    rec.count('evaluations_' + ev, vals.size)
    if ev == 'py':
        # LogLogit.get_value returns -log(0) = +inf (instead of -inf) when the chosen alternative is unavailable: reported
        # under ONE key; the entries are then set to the value the statement demands so that every other clause is still
        # evaluated on the rest of the vector.  Any other wrong value of an unavailable alternative goes through the clauses.
        A_ = np.asarray([table.pats[pi] for (_, pi, _) in table.groups], dtype=float)
        m = (A_ == 0) & (vals == np.inf)
        if m.any():
            g = int(np.nonzero(m.any(axis=1))[0][0])
            grp = table.describe_group(g)
            rec.violation(PYINF_KEY, f'{spec["model"]}(...).get_value() returns +inf for an unavailable alternative: '
                                     f'u={grp["u"]} avail={grp["avail"]} shift={grp["shift"]} (alts {alts}): {vals[g].tolist()}',
                          dict(part='spec', spec=spec, group=grp, base=table.describe_group(table.base_of[g])),
                          expected='-inf (log model) / 0 (probability model)', observed=vals[g].tolist())
            rec.count('python_evaluator_plus_infinity_entries_masked', int(m.sum()))
            vals[m] = -np.inf if spec['model'] in LOG_OF else 0.0
    return vals


def _part_levels(task, alph, rec):
    """the engine on a database (data-column and free-Beta utilities) at the large levels: logit / loglogit, and mev /
    logmev on hand-supplied ln G_i columns"""
    J = task['J']
    alts = alph['labels'][:J]
    table = level_table(alph, J, 3, 'var', alph['levels'])
    base = dict(kind='logit', alts=alts)
    run_family(base, [('logit', None), ('loglogit', None)], table, rec)
    small = Table(alts, table.us[1:3], table.pats, alph['levels'], [0, 1])
    run_family(dict(base, forms=dict(u='freebeta', av='var', ch='var')), [('logit', None), ('loglogit', None)], small, rec)
    gens = usermev_generators(alph, J)
    for gi, (gen, gmu) in enumerate(gens):
        if task['tier'] == 'quick' and J == 3 and gi % 3 != int(task['seed']) % 3:
            continue
        if J == 4 and gi % 5:
            continue
        af = ('var', 'none')[gi % 2]
        t2 = level_table(alph, J, 2, af, alph['levels'])
        spec = dict(kind='usermev', alts=alts, gen=gen, gmu=gmu, forms=dict(av=af), lg='homogeneous')
        run_family(spec, [('mev', None), ('logmev', None)], t2, rec, extra_cols=user_logGi_columns_h(spec, t2))
    rec.sample(dict(part='levels', alts=alts, levels=alph['levels'], rows=len(table.groups) * J))


def _part_pyeval(task, alph, rec):
    fam = task['fam']
    J = task['J']
    ev = task['ev']
    tier = task['tier']
    alts = alph['labels'][:J]
    sc = alph['scale'][1]
    if fam == 'logit':
        for k in task['forms']:
            forms = py_forms(k)
            table = level_table(alph, J, task['n_u'], forms['av'], alph['levels'])
            run_family(dict(kind='logit', alts=alts, forms=forms, evaluator=ev), [('logit', None), ('loglogit', None)], table, rec)
    elif fam == 'usermev':
        gens = usermev_generators(alph, J)
        for gi in task['gens']:
            gen, gmu = gens[gi]
            for k in task['forms']:
                forms = py_forms(k + gi)
                table = level_table(alph, J, 2, forms['av'], alph['levels'], two_shifted=(J > 2))
                spec = dict(kind='usermev', alts=alts, gen=gen, gmu=gmu, forms=forms, evaluator=ev, lg='homogeneous')
                run_family(spec, [('mev', None), ('logmev', None)], table, rec, log_gi_groups=user_logGi_groups(spec, table))
    elif fam in ('nested', 'cnl'):
        if fam == 'nested':
            structs = R.nested_structures(alts)
            models = [('nested', None), ('lognested', None), ('nested_mev_mu', sc), ('lognested_mev_mu', sc)]
        else:
            structs = R.cnl_structures(alts, 2, alph['splits'][:task['ns']])
            models = [('cnl', None), ('logcnl', None), ('cnlmu', sc), ('logcnlmu', sc)]
        for si in task['structs']:
            alone, nests = structs[si]
            mus = [alph['mus'][(si + k + 1) % 3] for k in range(len(nests))]
            base = dict(kind=fam, alts=alts, alone=list(alone), nests=[(list(n) if fam == 'nested' else dict(n)) for n in nests],
                        mus=mus, evaluator=ev)
            for k in range(task['nforms']):
                forms = py_forms(si * task['nforms'] + k, si)
                table = level_table(alph, J, 2, forms['av'], alph['mlevels'], two_shifted=(J > 2))
                run_family(dict(base, forms=forms), models, table, rec)
                if task.get('others') and nests:
                    run_family(dict(base, forms=forms), other_entry_points(fam, si + k, sc), table, rec)
                if task.get('endo') and nests:
                    # the entry points with correction terms fed with the ln G_i of the library's helper (rotating)
                    hs = NESTED_HELPERS if fam == 'nested' else CNL_HELPERS
                    h = hs[(si + k) % len(hs)]
                    vecs = corr_vectors(alph, J, 'reduced')
                    run_family(dict(base, forms=dict(forms, corr=PY_CORR_FORMS[(si + k) % len(PY_CORR_FORMS)]),
                                    corr=vecs[(si + k) % len(vecs)]),
                               [(f'{o}+{h}', sc if uses_mu(h) else None) for o in ENDO_MODELS], table, rec)
    elif fam == 'endo':
        # mev_endogenous_sampling / logmev_endogenous_sampling (thorough: and the old names) on hand-supplied ln G_i
        gens = usermev_generators(alph, J)
        vecs = corr_vectors(alph, J, 'reduced')
        models = [(m, None) for m in (ENDO_MODELS if tier == 'quick' else ENDO_MODELS + ENDO_ALIASES)]
        for gi in task['gens']:
            gen, gmu = gens[gi]
            for k in task['forms']:
                forms = py_forms(k + gi)
                table = level_table(alph, J, 2, forms['av'], alph['levels'], two_shifted=True)
                for ci in task['vecs']:
                    spec = dict(kind='usermev', alts=alts, gen=gen, gmu=gmu, evaluator=ev, lg='homogeneous',
                                forms=dict(forms, corr=PY_CORR_FORMS[(k + gi + ci) % len(PY_CORR_FORMS)]),
                                corr=vecs[(ci + gi) % len(vecs)])
                    run_family(spec, models, table, rec, log_gi_groups=user_logGi_groups(spec, table))
    else:
        raise ValueError(fam)
    rec.sample(dict(part='pyeval', family=fam, evaluator=EVALUATOR_NAMES[ev], alts=alts,
                    levels=alph['levels'] if fam in ('logit', 'usermev') else alph['mlevels']))


def pyeval_tasks(alph, tier, seed):
    quick = tier == 'quick'
    seed = int(seed)
    t = []
    nf = len(PY_FORM_SWEEP)
    mk = lambda **kw: dict(part='pyeval', seed=seed, tier=tier, **kw)
    Jmax = 3 if quick else 4
    # logit kernel: every form of the sweep under get_value; get_value_c(): two forms (quick, rotating) / all
    for J in range(2, Jmax + 1):
        n_u = 4 if J <= 3 else 3
        for ch in _chunks(range(nf), 8 if J == 2 else (2 if J == 3 else 1)):
            t.append(mk(fam='logit', J=J, ev='py', forms=list(ch), n_u=n_u))
        c0 = [(seed + J) % nf, (seed + J + 3) % nf] if quick else list(range(nf))
        for ch in _chunks(c0, 4 if J == 2 else 1):
            t.append(mk(fam='logit', J=J, ev='c0', forms=list(ch), n_u=2 if (quick or J == 4) else 3))
    # hand-supplied ln G_i
    for J in range(2, Jmax + 1):
        ng = len(usermev_generators(alph, J))
        gsel = [g for g in range(ng) if not (J == 4 and g % 5) and not (quick and J == 3 and (g + seed) % 2)]
        for ch in _chunks(gsel, 6 if J == 2 else 3):
            t.append(mk(fam='usermev', J=J, ev='py', gens=list(ch), forms=[0, 3] if quick else list(range(nf))))
        for ch in _chunks(gsel[::3] if quick else gsel, 3):
            t.append(mk(fam='usermev', J=J, ev='c0', gens=list(ch), forms=[1] if quick else [1, 4]))
    # nested / cross-nested formulas at moderate levels
    for J in (2, 3):
        n = len(R.nested_structures(alph['labels'][:J]))
        for ch in _chunks(range(n), 5 if J == 2 else 3):
            t.append(mk(fam='nested', J=J, ev='py', structs=list(ch), nforms=2 if quick else 4, others=True))
        for ch in _chunks(range(n) if not quick else [i for i in range(n) if (i + seed) % 3 == 0], 3):
            t.append(mk(fam='nested', J=J, ev='c0', structs=list(ch), nforms=1, others=False))
    for J, ns in ((2, 3), (3, 1)):
        n = len(R.cnl_structures(alph['labels'][:J], 2, alph['splits'][:ns]))
        sel = list(range(n)) if (not quick or J == 2) else [i for i in range(n) if (i + seed) % 4 == 0]
        for ch in _chunks(sel, 6 if J == 2 else 3):
            t.append(mk(fam='cnl', J=J, ns=ns, ev='py', structs=list(ch), nforms=1 if quick else 2, others=True))
        for ch in _chunks(sel[seed % 4::8] if quick else sel[::2], 1):
            t.append(mk(fam='cnl', J=J, ns=ns, ev='c0', structs=list(ch), nforms=1, others=False))
    # MEV models with correction terms on hand-supplied ln G_i (thorough: the nested / cross-nested tasks above feed them
    # with the library's own ln G_i as well)
    for J in range(2, Jmax + 1):
        gsel = endo_gens(alph, J, tier, seed)
        if quick:
            gsel = gsel[seed % 2::2]
        for ch in _chunks(gsel, 4 if J == 2 else 2):
            t.append(mk(fam='endo', J=J, ev='py', gens=list(ch), forms=[seed % nf] if quick else ([0, 3, 5, 6] if J < 4 else [0, 5]),
                        vecs=[0, 3] if (quick or J == 4) else list(range(6))))
        for ch in _chunks(gsel[::3] if (quick or J == 4) else gsel, 3):
            t.append(mk(fam='endo', J=J, ev='c0', gens=list(ch), forms=[1] if (quick or J == 4) else [1, 4], vecs=[1]))
    if not quick:
        for task in t:
            if task['fam'] in ('nested', 'cnl'):
                task['endo'] = True
    return t


# --------------------------------------------------------------------------- ordered models
def ordered_points(alph, K, tier):
    pts = []
    for t1 in alph['tau1']:
        for ds in itertools.product(alph['diffs'], repeat=K - 2):
            pts.append((t1, list(ds)))
    return pts


def eval_ordered(model, cats, xs, t1, ds, vform='var'):
    """Real library: dict category -> array of probabilities over the rows xs."""
    import numpy as np
    import pandas as pd
    import biogeme.database as bdb
    from biogeme import models
    from biogeme.expressions import Variable, Beta
    df = pd.DataFrame({'pad': [1.0] * len(xs), 'X': [float(x) for x in xs]})
    db = bdb.Database('o05', df)
    tau = Beta('tau_o', 0.0, None, None, 0)
    if vform == 'var':
        val = Variable('X')
    else:
        val = Beta('b_scale', 1.0, None, None, 0) * Variable('X')
    probs = getattr(models, model)(val, list(cats), tau)
    betas = {'tau_o': t1}
    for c, d in zip(cats[1:-1], ds):
        betas[f'tau_o_diff_{c}'] = d
    out = {}
    for c, e in probs.items():
        out[c] = np.asarray(e.get_value_c(database=db, betas=betas, prepare_ids=True), dtype=float)
    return out


def eval_ordered_nodb(model, cats, xs, t1, ds, vform, ev):
    """The same without a database: the continuous value is a Numeric (or a Beta times a Numeric), the thresholds are the
    values of the Betas (Expression.change_init_values); ev = 'py' (get_value) | 'c0' (get_value_c())."""
    import warnings
    import numpy as np
    from biogeme import models
    from biogeme.expressions import Numeric, Beta
    betas = {'tau_o': float(t1)}
    for c, d in zip(cats[1:-1], ds):
        betas[f'tau_o_diff_{c}'] = float(d)
    out = {}
    with np.errstate(all='ignore'), warnings.catch_warnings():
        warnings.simplefilter('ignore')
        for x in xs:
            tau = Beta('tau_o', 0.0, None, None, 0)
            val = Numeric(float(x)) if vform == 'var' else Beta('b_scale', 1.0, None, None, 0) * Numeric(float(x))
            for c, e in getattr(models, model)(val, list(cats), tau).items():
                e.change_init_values(betas)
                out.setdefault(c, []).append(float(e.get_value()) if ev == 'py' else float(e.get_value_c(prepare_ids=True)))
    return {c: np.asarray(v, dtype=float) for c, v in out.items()}


def check_ordered(model, cats, xs, t1, ds, rec, vform='var', tail=False, ev=None):
    import numpy as np
    cdf = R.logistic_cdf if model == 'ordered_logit' else R.normal_cdf
    taus = [t1]
    for d in ds:
        taus.append(taus[-1] + d)
    got = eval_ordered(model, cats, xs, t1, ds, vform) if not ev else eval_ordered_nodb(model, cats, xs, t1, ds, vform, ev)
    K = len(cats)
    case = dict(part='ordered', model=model, cats=list(cats), xs=None, t1=t1, ds=list(ds), vform=vform, tail=tail)
    if ev:
        case['ev'] = ev
    evt = f':evaluator={EVALUATOR_NAMES[ev]}' if ev else ''
    nbad = 0
    if sorted(got) != sorted(cats):
        rec.violation(f'{ID}|ordered-categories-missing|{model}:K={K}{evt}', f'{model} returned categories {sorted(got)} for {cats}',
                      dict(case, xs=list(xs)))
        return
    for r, x in enumerate(xs):
        P = [float(got[c][r]) for c in cats]
        ref = R.ordered_probs(x, taus, cdf)
        zmax = x - taus[0]
        c1 = dict(case, xs=[x])
        out = [p for p in P if not (-ABS <= p <= 1.0 + ABS)]
        if out:
            if model == 'ordered_probit' and zmax >= 6.0:
                key = TAIL_KEY
            else:
                key = f'{ID}|probability-outside-unit-interval|{model}:K={K}:z<6{evt}'
            rec.violation(key, f'{model}({cats}) at value {x}, thresholds {taus}: probabilities {P} leave [0,1] '
                               f'(largest value - threshold = {zmax})', c1, expected='0 <= P <= 1', observed=P)
            nbad += 1
        elif not tail:
            if not abs(sum(P) - 1.0) <= 1e-10:
                rec.violation(f'{ID}|probabilities-do-not-sum-to-one|{model}:K={K}{evt}', f'{model} at {x}, thresholds {taus}: sum {sum(P)}',
                              c1, expected=1.0, observed=P)
                nbad += 1
            elif not all(R.close(p, q, REL, ABS) for p, q in zip(P, ref)):
                rec.violation(f'{ID}|differs-from-closed-form|{model}:K={K}{evt}', f'{model}({cats}) at value {x}, cumulated thresholds '
                              f'{taus}: {P} instead of {ref}', c1, expected=ref, observed=P)
                nbad += 1
        if ev:
            rec.case(json.dumps([model, list(cats), x, t1, list(ds), vform, tail, ev]), P, outcome=(model, K, tail, not out, ev))
        else:
            rec.case(json.dumps([model, list(cats), x, t1, list(ds), vform, tail]), P, outcome=(model, K, tail, not out))
    return nbad


def _part_ordered(task, alph, rec):
    K, model = task['K'], task['model']
    thorough = task['tier'] == 'thorough'
    cats = alph['cats'][:K]
    xs = alph['xs'] if not thorough else sorted(set(alph['xs'] + [round(x + 0.35, 6) for x in alph['xs'][:-1]]))
    for t1, ds in ordered_points(alph, K, task['tier']):
        for vform in ('var', 'scaled'):
            check_ordered(model, cats, xs, t1, ds, rec, vform)
    rec.sample(dict(part='ordered', model=model, categories=cats, points=len(ordered_points(alph, K, task['tier'])), xs=xs))


def _part_ordered_nodb(task, alph, rec):
    """ordered models on formulas without data variables: Expression.get_value (ordered_logit; the Python evaluator has no
    normal CDF - bioNormalCdf.get_value is not implemented -, ordered_probit is counted as skipped there) and
    Expression.get_value_c() without a database (both)."""
    K, ev = task['K'], task['ev']
    cats = alph['cats'][:K]
    pts = ordered_points(alph, K, task['tier'])
    if task['tier'] == 'quick' and ev == 'c0':
        pts = pts[int(task['seed']) % 3::3]
    for model in ('ordered_logit', 'ordered_probit'):
        if ev == 'py' and model == 'ordered_probit':
            rec.count('skipped_python_evaluator_has_no_normal_cdf', len(pts) * len(alph['xs']))
            continue
        for pi, (t1, ds) in enumerate(pts):
            check_ordered(model, cats, alph['xs'], t1, ds, rec, ('var', 'scaled')[pi % 2], ev=ev)
    rec.sample(dict(part='ordered_nodb', evaluator=EVALUATOR_NAMES[ev], categories=cats, points=len(pts), xs=alph['xs']))


def _part_ordered_tail(task, alph, rec):
    """value - threshold in [6, 8.5]: the engine's normal CDF exceeds one there (cythonbiogeme, outside the repository).
    Only the unit-interval clause is evaluated in this region."""
    xs = [6.0, 6.25, 6.5, 7.0, 7.5, 8.5, -6.0, -7.0, -8.5]
    for model in ('ordered_logit', 'ordered_probit'):
        for K in (2, 3, 4):
            cats = alph['cats'][:K]
            check_ordered(model, cats, xs, 0.0, [alph['diffs'][0]] * (K - 2), rec, 'var', tail=True)
    rec.sample(dict(part='ordered_tail', xs=xs))


# --------------------------------------------------------------------------- ordered models over the declared parameter domain
# The thresholds of an ordered model are values of parameters: the first one is the user's Beta, the following ones are
# built by the library from Betas that it creates and declares itself (name, initial value, bounds).  "For all thresholds"
# therefore ranges over every value that the declared bounds of these parameters admit - the set an estimation algorithm is
# free to move in -, not only over values that the driver knows to be sensible.  This part reads the free parameters and
# their bounds from the expressions that the library returns and enumerates the grid below for each of them.
ORD_ENTRIES = ['ordered_logit', 'ordered_probit', 'ordered_likelihood+logisticcdf', 'ordered_likelihood+bioNormalCdf']
ORD_TAU_NAMES = ['tau_o', 'thr', 'B_TAU', 'tau_1_2', 't']
DOMAIN_KEY = 'thresholds-within-declared-bounds'


def ordered_model_of(entry):
    """entry point -> the ordered model it is (for the reference CDF and the engine-tail exclusion)"""
    return 'ordered_probit' if entry in ('ordered_probit', 'ordered_likelihood+bioNormalCdf') else 'ordered_logit'


def ordered_tau_menus(alph):
    """declared bounds of the user's first threshold parameter"""
    lo, hi = alph['tau1'][0], alph['tau1'][2]
    return [[None, None], [lo, None], [None, hi], [lo, hi]]


def domain_values(alph, lb, ub):
    """values of one parameter inside its declared bounds [lb, ub] (None = unbounded on that side): the bounds themselves
    when there are, points at the distances of the alphabet's grid from them; both signs when the parameter is unbounded."""
    d = alph['diffs']
    if lb is None and ub is None:
        return [-d[2], -d[0], 0.0, d[1]]
    if ub is None:
        return [float(lb), float(lb) + d[0], float(lb) + d[2]]
    if lb is None:
        return [float(ub) - d[2], float(ub) - d[0], float(ub)]
    lb, ub = float(lb), float(ub)
    return [lb, 0.5 * (lb + ub), ub] if ub > lb else [lb]


def build_ordered(entry, val, cats, tau):
    from biogeme import models
    if '+' in entry:
        import biogeme.distributions as dist
        from biogeme.expressions import bioNormalCdf
        cdf = dist.logisticcdf if entry.endswith('logisticcdf') else bioNormalCdf
        return models.ordered_likelihood(continuous_value=val, list_of_discrete_values=list(cats), tau_parameter=tau, cdf=cdf)
    return getattr(models, entry)(val, list(cats), tau)


def check_ordered_domain(entry, cats, xs, tb, vform, tau_name, alph, rec, only=None):
    """One model (entry point, categories, declared bounds tb of the user's threshold, form of the continuous value) on
    every point of the product of the domain grids of its free parameters, plus the point 'defaults' (no parameter value
    given: the initial values declared with the parameters).  only = (point, x): replay of that single evaluation (it is
    evaluated only if the point still belongs to the enumerated domain).  vform 'alt' alternates the form with the point."""
    import numpy as np
    import pandas as pd
    import biogeme.database as bdb
    from biogeme.expressions import Variable, Beta, TypeOfElementaryExpression
    model = ordered_model_of(entry)
    cdf = R.logistic_cdf if model == 'ordered_logit' else R.normal_cdf
    K = len(cats)
    xs = [float(x) for x in xs]
    db = bdb.Database('od05', pd.DataFrame({'pad': [1.0] * len(xs), 'X': xs}))
    case0 = dict(part='ordered_domain', entry=entry, cats=list(cats), tb=list(tb), tau_name=tau_name, seed=alph['_seed'])
    built = {}

    def build(vf):
        if vf not in built:
            tau = Beta(tau_name, alph['tau1'][1], tb[0], tb[1], 0)
            val = Variable('X') if vf == 'var' else Beta('b_scale', 1.0, None, None, 0) * Variable('X')
            probs = build_ordered(entry, val, cats, tau)
            params = {}
            for e in probs.values():
                params.update(e.dict_of_elementary_expression(TypeOfElementaryExpression.FREE_BETA))
            built[vf] = (probs, params)
        return built[vf]

    probs, params = build('var')
    if sorted(probs) != sorted(cats):
        rec.violation(f'{ID}|ordered-categories-missing|{entry}:K={K}:{DOMAIN_KEY}', f'{entry} returned categories {sorted(probs)} '
                      f'for {cats}', dict(case0, xs=xs, vform='var', point=None))
        return
    lib_names = [n for n in params if n not in (tau_name, 'b_scale')]
    expected = [f'{tau_name}_diff_{c}' for c in cats[1:-1]]
    known_names = sorted(lib_names) == sorted(expected)
    if known_names:
        lib_names = expected
    else:
        lib_names = sorted(lib_names)
        rec.count('ordered_domain_parameter_names_unknown_no_closed_form')
    declared = {n: [params[n].lb, params[n].ub] for n in lib_names}
    grids = [domain_values(alph, tb[0], tb[1])] + [domain_values(alph, *declared[n]) for n in lib_names]
    names = [tau_name] + lib_names
    points = [None] + [dict(zip(names, v)) for v in itertools.product(*grids)]
    if only is not None:
        points = [p for p in points if p == only[0]]
        xs_sel = [only[1]]
    for pi, point in enumerate(points):
        vf = vform if vform != 'alt' else ('var', 'scaled')[pi % 2]
        probs, params = build(vf)
        if point is None:
            values = {}
            for e in probs.values():
                values.update(e.get_beta_values())
            betas = None
        else:
            values = dict(point)
            betas = dict(point)
            if vf == 'scaled':
                betas['b_scale'] = 1.0
        got = {c: np.asarray(e.get_value_c(database=db, betas=betas, prepare_ids=True), dtype=float) for c, e in probs.items()}
        ordered_taus = None
        tmin = float(values.get(tau_name, 0.0))
        if known_names and all(n in values for n in names):
            taus = [float(values[tau_name])]
            for n in lib_names:
                taus.append(taus[-1] + float(values[n]))
            tmin = min(taus)
            if all(b >= a for a, b in zip(taus, taus[1:])):
                ordered_taus = taus
        where = 'the initial values declared with the parameters' if point is None else f'parameter values {point}'
        for r, x in enumerate(xs):
            if only is not None and x not in xs_sel:
                continue
            P = [float(got[c][r]) for c in cats]
            if model == 'ordered_probit' and x - tmin >= 6.0:
                rec.count('ordered_domain_skipped_engine_normal_cdf_tail')
                continue
            c1 = dict(case0, xs=[x], vform=vf, point=point)
            out = [p for p in P if not (-ABS <= p <= 1.0 + ABS)]
            if out:
                rec.violation(f'{ID}|probability-outside-unit-interval|{entry}:{DOMAIN_KEY}',
                              f'{entry}({cats}) at value {x} with {where} (declared bounds: {tau_name} {tb}, created by the '
                              f'library {declared}): probabilities {P} leave [0,1]', c1, expected='0 <= P <= 1', observed=P)
            elif not abs(sum(P) - 1.0) <= 1e-10:
                rec.violation(f'{ID}|probabilities-do-not-sum-to-one|{entry}:{DOMAIN_KEY}',
                              f'{entry}({cats}) at value {x} with {where} (declared bounds: {tau_name} {tb}, created by the '
                              f'library {declared}): sum {sum(P)}', c1, expected=1.0, observed=P)
            elif ordered_taus is not None:
                ref = R.ordered_probs(x, ordered_taus, cdf)
                if not all(R.close(p, q, REL, ABS) for p, q in zip(P, ref)):
                    rec.violation(f'{ID}|differs-from-closed-form|{entry}:{DOMAIN_KEY}',
                                  f'{entry}({cats}) at value {x} with {where}, cumulated thresholds {ordered_taus}: {P} instead '
                                  f'of {ref}', c1, expected=ref, observed=P)
            rec.case(json.dumps([entry, list(cats), x, tb, vf, tau_name, 'defaults' if point is None else sorted(point.items())]),
                     P, outcome=(entry, K, 'domain', not out, point is None))
    return dict(points=len(points), declared=declared)


def ordered_domain_plan(alph, tier, seed):
    """(K, entry, index of the menu of declared bounds of the user's threshold, vform)"""
    quick = tier == 'quick'
    s = int(seed)
    plan = []
    for K in ((2, 3, 4, 5) if quick else (2, 3, 4, 5, 6)):
        for ei, entry in enumerate(ORD_ENTRIES):
            if quick:
                menus = [0, 1, 2, 3] if K <= 3 else ([0, 1 + (s + ei) % 3] if K == 4 else [(s + ei) % 4])
            else:
                menus = [0, 1, 2, 3] if K <= 5 else [(s + ei) % 4]
            plan.append((K, entry, menus, 'alt' if (quick or K == 6) else 'both'))
    return plan


def _part_ordered_domain(task, alph, rec):
    K, entry = task['K'], task['entry']
    cats = (alph['cats'] + [alph['cats'][-1] + 3, alph['cats'][-1] + 4])[:K]
    tau_name = ORD_TAU_NAMES[(int(task['seed']) + K) % len(ORD_TAU_NAMES)]
    menus = ordered_tau_menus(alph)
    info = None
    for mi in task['menus']:
        for vform in (('var', 'scaled') if task['vform'] == 'both' else (task['vform'],)):
            info = check_ordered_domain(entry, cats, alph['xs'], menus[mi], vform, tau_name, alph, rec)
    rec.sample(dict(part='ordered_domain', entry=entry, categories=cats, tau_name=tau_name, menus=[menus[m] for m in task['menus']],
                    last=info))


# --------------------------------------------------------------------------- replay
def replay(case):
    rec = Rec()
    if case['part'] == 'ordered_domain':
        alph = alphabet(case['seed'])
        check_ordered_domain(case['entry'], case['cats'], case['xs'], case['tb'], case['vform'], case['tau_name'], alph, rec,
                             only=(case['point'], case['xs'][0]))
        return rec.violations
    if case['part'] == 'ordered':
        check_ordered(case['model'], case['cats'], case['xs'], case['t1'], case['ds'], rec, case['vform'], case.get('tail', False),
                      ev=case.get('ev'))
        return rec.violations
    if case['part'] == 'hist':
        h = case['hist']
        alph = alphabet(h['seed'])
        hc = HistContext(alph, _int_keys(h['ctx']), h['tier'], h['seed'])
        run_history(hc, h['history'], rec, h.get('eval_all', False))
        return rec.violations
    spec = case['spec']
    grp, base = case['group'], case['base']
    alts = spec['alts']
    shifts = [grp['shift']] if grp['shift'] else []
    table = Table(alts, [base['u']], [base['avail']], shifts, [0] if shifts else [])
    cols = lgg = None
    if spec['kind'] == 'usermev':
        if spec.get('evaluator'):
            lgg = user_logGi_groups(spec, table)
        else:
            cols = (user_logGi_columns_h if spec.get('lg') == 'homogeneous' else user_logGi_columns)(spec, table)
    models = [(spec['model'], spec.get('mu'))]
    if spec['model'] in LOG_OF:
        models.insert(0, (LOG_OF[spec['model']], spec.get('mu')))
    base_spec = {k: v for k, v in spec.items() if k not in ('model', 'mu')}
    run_family(base_spec, models, table, rec, extra_cols=cols, log_gi_groups=lgg)
    return rec.violations
