"""C09 — panel likelihood is the product over each individual's rows, with shared draws.

For every panel composition (1-3 individuals, 1-3 observations each, ids from {3,7,10} assigned in
every order) EVERY permutation of the table's rows is generated: permutations that keep each
individual's rows contiguous must be accepted and give, per individual (matched by id), the
plain-Python reference value (product over exactly its rows; inside MonteCarlo the mean over draws
of that product with ONE draw series per individual); all other permutations must be refused.

Later additions (all oracles are clauses of the statement):
* formulas that are not additive over the observations of an individual (0.25 + trajectory) and formulas that
  reach the trajectory operator through a catalog (selected member), evaluated like the others;
* formulas with a data variable OUTSIDE the trajectory operator (written plainly, as the selected member of a
  catalog, as a catalog factor, in nested catalogs, under MonteCarlo) handed to the model-level entry forms
  (BIOGEME(expr), BIOGEME({'log_like': ..}), simulate, simulate after the selection was switched on a live
  model): such a formula has no value "per individual", so the only outcomes compatible with the statement are a
  refusal (BiogemeError) or a result that is the same for every order of the rows of every individual - the
  outcomes over ALL contiguous permutations of one table are compared;
* histories on one live BIOGEME object [evaluate, edit the table through the Database interface, evaluate ...]:
  every sequence (depth <= 2) over {identifier column scaled by -1 / 2 / -0.5, a data column scaled, the rows of
  the first / last individual removed}, after every step log likelihood, log likelihood with derivatives and
  simulate (both observer orders) against the reference on the table as it is now;
* panels with 4-5 individuals (sizes 1-4) in every order of the blocks.
"""
from __future__ import annotations

import itertools
import math
import os

from vf import refsem as R
from vf.rec import Rec

ID = 'C09'
LEVEL = 'exploration'
TECHNIQUE = 'bounded exhaustive enumeration of panel compositions x id assignments x all row permutations on the real Database/engine vs a plain-Python product / mean-of-products reference'
RULE = ('one case = one (composition, id assignment, row permutation) table: contiguous ones are evaluated for 5 formulas x 2 parameter points x '
        'R in {1,2,3} through get_value_c, BIOGEME.calculate_likelihood and simulate; non-contiguous ones must be refused. Non-trivial = at least two '
        'individuals or an individual with >= 2 rows; distinct = distinct tables. Further parts: (a) 8 formulas with a data variable outside the '
        'trajectory operator (plain / through catalogs) x 4 model-level entry forms on every contiguous permutation, outcomes compared over all '
        'orders of one table; (b) one case = one history of Database edits (scale_column on the identifier or a data column, remove an '
        'individual; every sequence up to the depth bound) on one live BIOGEME object x observer order, observed after every step; '
        '(c) panels of 4-5 individuals in every order of the blocks.')
ASSUMPTIONS = [
    'draws come from deterministic user-defined generators (value = function of the individual position in the sorted id map and of the draw index), '
    'so "the same draw for all rows of an individual" is observable exactly',
    'values at grid points only',
    'a formula with a data variable outside the trajectory operator is judged at the model-level entry forms only (BIOGEME(...), simulate): '
    'refusal or one result for all row orders; nothing is demanded from the expression-level evaluator there (DESIGN 4, C12 scoping decision)',
    'a catalog means its selected member (selection set on the catalog\'s own controller)',
]
ANCHOR_FILES = ['src/biogeme/database.py', 'src/biogeme/biogeme.py', 'src/biogeme/expressions/unary_expressions.py',
                'src/biogeme/expressions/calculator.py', 'src/biogeme/expressions/idmanager.py', 'src/biogeme/tools/database.py',
                'src/biogeme/expressions/multiple_expressions.py', 'src/biogeme/expressions/base_expressions.py']

_SEED = int(os.environ.get('VERIF_SEED', '0') or 0)
_POOLS = [
    dict(x1=[1.0, 2.0, 0.5, 1.5, 0.25, 0.75], x2=[-1.0, 0.5, 2.0, -0.25, 1.0, -0.5], c2=[1, 2, 2, 1, 1, 2]),
    dict(x1=[0.5, 1.25, 2.0, 0.75, 1.0, 0.25], x2=[1.0, -0.5, 0.25, 1.5, -1.5, 0.75], c2=[2, 1, 1, 2, 2, 1]),
]
POOL = _POOLS[_SEED % 2]
IDS = [[3, 7, 10], [12, 5, 8], [100, 2, 30]][(_SEED // 2) % 3]
# identifiers that are large and close to each other (survey-style ids), met in non-sorted order
IDS_LARGE = [2019002, 2019001, 2019003]
COLS = ['x2', 'id', 'c2', 'x1']
PARAMS = [dict(b1=0.5, b2=-0.75, s=0.25), dict(b1=-0.25, b2=0.5, s=1.0)]


def B(n):
    return ('beta', n)


def V(n):
    return ('var', n)


U = ('+', ('*', B('b1'), V('x1')), ('*', B('s'), ('draw', 'xi', 'DET_A')))
FORMULAS = {
    'traj_exp': ('traj', ('exp', ('*', B('b1'), V('x1')))),
    'traj_logit': ('traj', ('logit', V('c2'), ((1, ('*', B('b1'), V('x1')), None), (2, ('*', B('b2'), V('x2')), None)))),
    'mc_traj': ('mc', ('traj', ('exp', ('*', ('num', 0.5), U)))),
    'mc_traj_logit': ('mc', ('traj', ('logit', V('c2'), ((1, U, None), (2, ('*', B('b2'), V('x2')), None))))),
    'mc_two_draws': ('mc', ('traj', ('exp', ('*', ('num', 0.25), ('+', U, ('*', V('x2'), ('draw', 'eta', 'DET_B'))))))),
}
_LOGIT = ('logit', V('c2'), ((1, ('*', B('b1'), V('x1')), None), (2, ('*', B('b2'), V('x2')), None)))


def CAT(name, members, sel):
    """Catalog node of the term language: ('cat', name, ((member name, term), ...), index of the selected member).
    Its meaning is the meaning of the selected member (resolve())."""
    return ('cat', name, tuple(members), sel)


FORMULAS.update({
    # not additive over the observations of an individual: log(0.25 + product) is not a sum over rows
    'traj_nonadd': ('+', ('num', 0.25), ('traj', _LOGIT)),
    # the trajectory operator reached through a catalog / a catalog inside the trajectory operator
    'cat_inside': ('traj', ('exp', CAT('util', (('u1', ('*', B('b1'), V('x1'))), ('u2', ('*', B('b2'), V('x2')))), 1))),
    'mc_cat_root': CAT('spec', (('plain', ('traj', ('exp', ('*', B('b1'), V('x1'))))),
                                ('mixture', ('mc', ('traj', ('exp', ('*', ('num', 0.5), U)))))), 1),
})
# used by the live-model histories only (no logit inside: its audit dominates the cost of a model object)
LIVE_ONLY = {'live_nonadd': ('+', ('num', 0.25), ('traj', ('exp', ('+', ('*', B('b1'), V('x1')), ('*', B('b2'), V('x2'))))))}
# formulas in which the data variable x1 (positive in every pool) is OUTSIDE the trajectory operator
_TR = ('traj', ('exp', ('*', B('b2'), V('x2'))))
_OUT = ('*', V('x1'), _TR)
_IN = ('traj', ('*', V('x1'), ('exp', ('*', B('b2'), V('x2')))))
_OUT_MC = ('mc', ('*', V('x1'), ('traj', ('exp', ('*', ('num', 0.5), U)))))
_IN_MC = ('mc', ('traj', ('*', V('x1'), ('exp', ('*', ('num', 0.5), U)))))
MISPLACED = {
    'plain': _OUT,
    'catalog-member-first': CAT('spec', (('outside', _OUT), ('inside', _IN)), 0),
    'catalog-member-second': CAT('spec', (('inside', _IN), ('outside', _OUT)), 1),
    'catalog-factor': ('*', CAT('fac', (('one', ('num', 1.0)), ('y', V('x1'))), 1), _TR),
    'nested-catalogs': CAT('outer', (('in', _IN), ('deep', CAT('inner', (('inside', _IN), ('outside', _OUT)), 1))), 1),
    'catalog-under-log': ('exp', ('log', CAT('spec', (('inside', _IN), ('outside', _OUT)), 1))),
    'mc-plain': _OUT_MC,
    'mc-catalog': CAT('spec', (('inside', _IN_MC), ('outside', _OUT_MC)), 1),
}
# index of a well-formed selection of the outermost catalog (for the history [model, switch the selection, simulate])
MISPLACED_GOOD_SELECTION = {'catalog-member-first': ('spec', 1), 'catalog-member-second': ('spec', 0), 'catalog-factor': ('fac', 0),
                            'nested-catalogs': ('outer', 0), 'catalog-under-log': ('spec', 0), 'mc-catalog': ('spec', 0)}


def resolve(t):
    """Plain term meant by a term with catalogs: every catalog replaced by its selected member."""
    if t[0] == 'cat':
        return resolve(t[2][t[3]][1])
    return R.map_children(t, resolve)


class CBuilder(R.Builder):
    """refsem.Builder + catalogs (biogeme.catalog.Catalog, selection set on the catalog's own controller AFTER the
    catalog was made, so the default selection (first member) is not what is evaluated)."""

    def __init__(self, betas):
        super().__init__(betas)
        self.catalogs = {}

    def _build(self, t):
        if t[0] != 'cat':
            return super()._build(t)
        from biogeme.catalog import Catalog
        from biogeme.expressions import NamedExpression
        cat = Catalog(t[1], [NamedExpression(name=nm, expression=self.build(m)) for nm, m in t[2]])
        cat.controlled_by.set_index(t[3])
        self.catalogs[t[1]] = cat
        return cat


def build(spec, t):
    return CBuilder(spec).build(t)


def det_a(k, r):
    return 0.1 * (k + 1) - 0.03 * (r + 1)


def det_b(k, r):
    return -0.2 * (k + 1) + 0.05 * (r + 1) * (r + 1)


def compositions(tier):
    maxtot = 4 if tier == 'quick' else 5
    out = []
    for n in (1, 2, 3):
        for comp in itertools.product((1, 2, 3), repeat=n):
            if sum(comp) <= maxtot:
                out.append(comp)
    if tier == 'thorough':
        out += [(3, 3), (2, 2, 2), (1, 2, 3)]
    return out


# five identifiers (the three of the seed's alphabet + two that interleave with them)
IDS5 = IDS + [IDS[0] + 1, IDS[1] + 20]


def block_compositions(tier):
    """Panels with 4-5 individuals, sizes 1-4, sizes neither increasing nor decreasing along the sorted identifiers."""
    if tier == 'quick':
        return [(1, 2, 4, 2, 3), (2, 1, 1, 3)]
    out = [c for c in itertools.product((1, 2, 3), repeat=4) if sum(c) <= 8]
    return out + [(1, 2, 4, 2, 3), (3, 1, 4, 1, 2), (2, 4, 1, 3, 1)]


def live_plan(tier):
    """[(composition, formulas, observer orders, depth)] for the live-model histories."""
    small = [c for c in compositions('quick') if sum(c) <= 3]
    if tier == 'quick':
        return [(c, ['live_nonadd', 'mc_traj'], [0, 1], 1) for c in small] + \
               [(c, ['mc_traj'], [0], 2) for c in [(1, 2), (2, 1)]]
    every = ['live_nonadd', 'mc_traj', 'traj_nonadd', 'mc_traj_logit', 'mc_two_draws', 'mc_cat_root']
    return [(c, every, [0, 1], 1) for c in compositions('quick')] + \
           [(c, ['live_nonadd', 'mc_traj'], [0, 1], 2) for c in small] + \
           [(c, ['live_nonadd', 'mc_traj'], [0], 3) for c in [(1, 2), (2, 1), (1, 2, 1)]]


def tasks(tier, seed):
    t = []
    for comp in compositions(tier):
        n = len(comp)
        for ids in itertools.permutations(IDS, n):
            t.append(dict(comp=list(comp), ids=list(ids), tier=tier))
        if n >= 2 and (tier == 'thorough' or sum(comp) <= 3):
            for ids in itertools.permutations(IDS_LARGE, n):
                t.append(dict(comp=list(comp), ids=list(ids), tier=tier))
    live = []
    for comp, formulas, orders, depth in live_plan(tier):
        hs = [h for h in live_histories(depth) if len(h) == depth]
        for ids in itertools.permutations(IDS, len(comp)):
            for f in formulas:
                for k in range(0, len(hs), 36):
                    live.append(dict(part='live', comp=list(comp), ids=list(ids), tier=tier, formula=f, observer_orders=orders,
                                     histories=hs[k:k + 36]))
    blocks = []
    for comp in block_compositions(tier):
        n = len(comp)
        orders = list(itertools.permutations(range(n)))
        for k in range(0, len(orders), 6):
            blocks.append(dict(part='blocks', comp=list(comp), ids=IDS5[:n], tier=tier, orders=[list(o) for o in orders[k:k + 6]]))
    # simplest first; the cheap live histories are interleaved so that the long permutation tasks do not all end the run
    return live[:len(live) // 2] + t + blocks + live[len(live) // 2:]


def pool_value(col, k):
    """Value of column ``col`` in the k-th row of the base table (the seed's pool, continued deterministically past its end)."""
    v = POOL[col][k % 6]
    if col == 'c2' or k < 6:
        return float(v)
    return float(v) * 0.5 + 0.125 * (k // 6)


def base_rows(comp, ids):
    rows, k = [], 0
    for cnt, idv in zip(comp, ids):
        for _ in range(cnt):
            rows.append(dict(x1=pool_value('x1', k), x2=pool_value('x2', k), c2=pool_value('c2', k), id=float(idv)))
            k += 1
    return rows


def contiguous(seq):
    seen, prev = set(), None
    for v in seq:
        if v != prev:
            if v in seen:
                return False
            seen.add(v)
            prev = v
    return True


def reference(formula, rows, params, Rn):
    """{id: value} per individual: sorted-id position k selects the draw series."""
    plain = resolve(formula)
    ids_sorted = sorted({r['id'] for r in rows})
    out = {}
    for k, idv in enumerate(ids_sorted):
        mine = [r for r in rows if r['id'] == idv]
        draws = {'xi': [det_a(k, r) for r in range(Rn)], 'eta': [det_b(k, r) for r in range(Rn)]}
        out[idv] = R.evaluate(plain, row=mine[0], params=params, draws=draws, rows=mine)
    return out


def close(a, b, rel=1e-10):
    return a == b or abs(a - b) <= 1e-13 + rel * max(abs(a), abs(b))


def make_panel_db(rows, log, index_mode=0):
    import numpy as np
    from vf.engine import make_db

    db = make_db(rows, COLS)
    if index_mode:
        # row labels that are neither 0..n-1 nor sorted (as left by earlier filtering / concatenation of the user's frame)
        db.data.index = [(7 * i + 3) % 23 for i in range(len(rows))]

    def gen_a(n, r_):
        log.append(('DET_A', n, r_))
        return np.array([[det_a(k, r) for r in range(r_)] for k in range(n)], dtype=float)

    def gen_b(n, r_):
        log.append(('DET_B', n, r_))
        return np.array([[det_b(k, r) for r in range(r_)] for k in range(n)], dtype=float)

    db.set_random_number_generators({'DET_A': (gen_a, 'deterministic A'), 'DET_B': (gen_b, 'deterministic B')})
    return db


def run_task(task):
    part = task.get('part', 'perms')
    if part == 'live':
        rec = Rec()
        _live_history(task, rec)
        return rec.result()
    if part == 'blocks':
        return _run_blocks(task)
    return _run_perms(task)


def _run_blocks(task):
    """Panels with more individuals: every order of the blocks in the table (rows of an individual in the given order for
    even-numbered orders, reversed for odd-numbered ones)."""
    rec = Rec()
    comp, ids, tier = task['comp'], task['ids'], task['tier']
    rows0 = base_rows(comp, ids)
    by_ind, k = [], 0
    for cnt in comp:
        by_ind.append(rows0[k:k + cnt])
        k += cnt
    Rs = (2,)
    formulas = ['traj_logit', 'traj_nonadd', 'mc_traj', 'mc_cat_root'] if tier == 'quick' else list(FORMULAS)
    refs = _references(formulas, rows0, Rs)
    for order in task['orders']:
        flip = sum(order[:2]) % 2
        rows = [r for i in order for r in (by_ind[i][::-1] if flip else by_ind[i])]
        case = dict(part='blocks', comp=comp, ids=ids, tier=tier, orders=[order])
        key = ('blocks', tuple(comp), tuple(ids), tuple(order))
        if not _check_table(rec, rows, len(comp), refs, key, case, f'[comp={comp} ids={ids} block order={order} reversed rows={flip}]',
                            formulas, Rs, index_mode=flip, tag=tuple(order)):
            break
    return rec.result()


def _references(formulas, rows0, Rs):
    refs = {}
    for fname in formulas:
        for pi, p in enumerate(PARAMS):
            for Rn in Rs:
                refs[(fname, pi, Rn)] = reference(FORMULAS[fname], rows0, p, Rn)
    return refs


def _run_perms(task):
    rec = Rec()
    comp, ids, tier = task['comp'], task['ids'], task['tier']
    _edit_history(task, rec)
    if rec.retire:
        return rec.result()
    rows0 = base_rows(comp, ids)
    n = len(rows0)
    nind = len(comp)
    Rs = (2,) if tier == 'quick' else (1, 2, 3)
    nontrivial = nind >= 2 or max(comp) >= 2
    rec.sample(dict(composition=comp, ids=ids, permutations=math.factorial(n)))
    refs = _references(FORMULAS, rows0, Rs)
    misplaced = {}

    for perm in itertools.permutations(range(n)):
        rows = [rows0[i] for i in perm]
        case = dict(comp=comp, ids=ids, perm=list(perm), tier=tier)
        key = ('table', tuple(comp), tuple(ids), perm) if nontrivial else None
        if not _check_table(rec, rows, nind, refs, key, case, f'[comp={comp} ids={ids} perm={perm}]', list(FORMULAS), Rs,
                            index_mode=sum(perm[:2]) % 2, misplaced=misplaced, tag=perm):
            return rec.result()
    _judge_misplaced(rec, misplaced, dict(comp=comp, ids=ids, tier=tier), f'[comp={comp} ids={ids}]', varied=max(comp) >= 2)
    return rec.result()


def _check_table(rec, rows, nind, refs, key, case, label, formulas, Rs, index_mode=0, misplaced=None, tag=None):
    """All clauses for ONE table (list of row dicts in the order of the table).  False = the worker must be retired."""
    import numpy as np
    from biogeme.exceptions import BiogemeError
    from vf.engine import make_biogeme

    spec = {nm: (v, None, None, 0) for nm, v in PARAMS[0].items()}
    n = len(rows)
    idseq = [r['id'] for r in rows]
    shape = (case.get('comp'), case.get('ids'), tag)

    def bad(clause, what, **kw):
        rec.violation(f'C09|{clause}|{kw.pop("where", "panel")}', what + ' ' + label, dict(case, **kw))

    log = []
    db = make_panel_db(rows, log, index_mode=index_mode)
    if not contiguous(idseq):
        try:
            db.panel('id')
            rec.case(key, shape + ('accepted-noncontiguous',), outcome='noncontiguous-accepted')
            bad('non-contiguous-panel-accepted', f'id sequence {idseq} accepted by Database.panel')
        except BiogemeError:
            rec.case(key, shape + ('refused',), outcome='noncontiguous-refused')
        except Exception as e:
            rec.case(key, shape + (type(e).__name__,), outcome='noncontiguous-other-error')
            bad(f'non-contiguous-panel-wrong-error-{type(e).__name__}', str(e)[:200])
        return True
    try:
        db.panel('id')
    except Exception as e:
        rec.case(key, shape + ('raised',), outcome='contiguous-refused')
        bad(f'contiguous-panel-refused-{type(e).__name__}', f'id sequence {idseq}: {str(e)[:200]}')
        return True
    # structure of the individual map
    imap = db.individualMap
    blocks = {float(i): (int(imap.loc[i][0]), int(imap.loc[i][1])) for i in imap.index}
    data_ids = [float(v) for v in db.data['id']]
    okmap = sorted(blocks) == sorted(set(idseq)) and db.get_sample_size() == nind
    covered = []
    for i, (lo, hi) in blocks.items():
        okmap = okmap and all(data_ids[j] == i for j in range(lo, hi + 1)) and hi - lo + 1 == idseq.count(i)
        covered += list(range(lo, hi + 1))
    okmap = okmap and sorted(covered) == list(range(n))
    rec.case(key, shape + (sorted(blocks.items()),), outcome=('contiguous', nind))
    if not okmap:
        bad('individual-map-not-a-partition-into-contiguous-blocks', f'map={blocks} ids in data={data_ids} sample size={db.get_sample_size()}')
        return True
    order = [float(i) for i in imap.index]
    for fname in formulas:
        formula = FORMULAS[fname]
        has_draws = bool(R.leaves(resolve(formula), 'draw'))
        for pi, p in enumerate(PARAMS):
            for Rn in Rs:
                if not has_draws and Rn != Rs[0]:
                    continue
                want = refs[(fname, pi, Rn)]
                kw = dict(formula=fname, point=pi, R=Rn)
                # expression-level entry point
                try:
                    del log[:]
                    expr = build(spec, formula)
                    got = [float(v) for v in expr.get_value_c(database=db, betas=dict(p), number_of_draws=Rn,
                                                              prepare_ids=True)]
                except Exception as e:
                    bad(f'raised-{type(e).__name__}', f'{fname}: {str(e)[:200]}', where='get_value_c', **kw)
                    rec.retire = True
                    return False
                rec.case((key, fname, pi, Rn) if key else None, (fname, pi, Rn, [round(v, 10) for v in got]), outcome=('value', fname))
                if len(got) != nind:
                    bad('one-value-per-individual', f'{fname}: {len(got)} values for {nind} individuals', where='get_value_c', **kw)
                    continue
                if any(not close(g, want[i]) for g, i in zip(got, order)):
                    bad('trajectory-value', f'{fname} R={Rn} point={pi}: {dict(zip(order, got))} expected {want}',
                        where='get_value_c:' + fname, **kw)
                if has_draws:
                    if any(sz != nind for _, sz, _ in log) or not log:
                        bad('draws-not-dimensioned-by-individuals', f'{fname}: generators called with {log}, individuals={nind}',
                            where='generate_draws', **kw)
                    if db.theDraws.shape[0] != nind or db.theDraws.shape[1] != Rn:
                        bad('draw-table-shape', f'{db.theDraws.shape} for {nind} individuals, R={Rn}', where='generate_draws', **kw)
        # BIOGEME: log likelihood = sum over individuals of log(trajectory); simulate is per individual
        for pi, p in enumerate(PARAMS):
            Rn = Rs[-1]
            want = refs[(fname, pi, Rn)]
            kw = dict(formula=fname, point=pi, R=Rn)
            try:
                ll_expr = build(spec, ('log', formula))
                b = make_biogeme(db, ll_expr, number_of_draws=Rn)
                names = list(b.free_beta_names)
                x = np.array([p[nm] for nm in names], dtype=float)
                ll = float(b.calculate_likelihood(x, scaled=False))
                lls = float(b.calculate_likelihood(x, scaled=True))
                bs = make_biogeme(db, {'v': build(spec, formula)}, number_of_draws=Rn)
                sim = bs.simulate({nm: p[nm] for nm in bs.free_beta_names})
            except Exception as e:
                bad(f'raised-{type(e).__name__}', f'{fname}: {str(e)[:200]}', where='BIOGEME', **kw)
                rec.retire = True
                return False
            rec.case((key, fname, pi, 'biogeme') if key else None, (fname, pi, round(ll, 9)), outcome=('biogeme', fname))
            want_ll = sum(math.log(v) for v in want.values())
            if not close(ll, want_ll, 1e-9):
                bad('log-likelihood-not-sum-over-individuals', f'{fname}: LL={ll!r} expected {want_ll!r}', where='BIOGEME:' + fname, **kw)
            if not close(lls, ll / nind, 1e-12):
                bad('scaled-likelihood-not-divided-by-number-of-individuals', f'{fname}: scaled={lls!r} LL={ll!r} individuals={nind}',
                    where='BIOGEME', **kw)
            simd = {float(i): float(v) for i, v in zip(sim.index, sim['v'])}
            if sorted(simd) != sorted(want) or any(not close(simd[i], want[i]) for i in want):
                bad('simulate-per-individual', f'{fname}: simulate={simd} expected {want}', where='simulate:' + fname, **kw)
    if misplaced is not None:
        return _observe_misplaced(rec, db, misplaced, tag, key, case, label)
    return True


# ----------------------------------------------------------------------------- a data variable outside the trajectory operator
ENTRY_FORMS = ('BIOGEME(expr)', 'BIOGEME(dict)', 'simulate', 'switch-selection-then-simulate')


def _observe_misplaced(rec, db, store, tag, key, case, label):
    """Hands every formula of MISPLACED to every model-level entry form on the panel table ``db`` and stores the outcome
    ('refused',) or ('value', {id or 'LL': number}) under store[(formula, entry form)] -> [(tag, outcome)]."""
    import numpy as np
    from biogeme.exceptions import BiogemeError
    from vf.engine import make_biogeme

    spec = {nm: (v, None, None, 0) for nm, v in PARAMS[0].items()}
    p = PARAMS[1]
    Rn = 2
    for mname, formula in MISPLACED.items():
        for entry in ENTRY_FORMS:
            if entry == 'switch-selection-then-simulate' and mname not in MISPLACED_GOOD_SELECTION:
                continue
            try:
                if entry in ('BIOGEME(expr)', 'BIOGEME(dict)'):
                    e = build(spec, ('log', formula))
                    b = make_biogeme(db, e if entry == 'BIOGEME(expr)' else {'log_like': e}, number_of_draws=Rn)
                    x = np.array([p[nm] for nm in b.free_beta_names], dtype=float)
                    out = ('value', {'LL': float(b.calculate_likelihood(x, scaled=False))})
                else:
                    bld = CBuilder(spec)
                    e = bld.build(formula)
                    if entry == 'simulate':
                        b = make_biogeme(db, {'v': e}, number_of_draws=Rn)
                    else:
                        cname, good = MISPLACED_GOOD_SELECTION[mname]
                        bad_index = bld.catalogs[cname].controlled_by.current_index
                        bld.catalogs[cname].controlled_by.set_index(good)
                        b = make_biogeme(db, {'v': e}, number_of_draws=Rn)
                        b.simulate({nm: p[nm] for nm in b.free_beta_names})
                        bld.catalogs[cname].controlled_by.set_index(bad_index)
                    sim = b.simulate({nm: p[nm] for nm in b.free_beta_names})
                    out = ('value', {float(i): float(v) for i, v in zip(sim.index, sim['v'])})
            except BiogemeError:
                out = ('refused',)
            except Exception as e:
                rec.case((key, 'misplaced', mname, entry) if key else None, (mname, entry, type(e).__name__), outcome=('misplaced', 'error'))
                written = 'through-a-catalog' if 'catalog' in mname else 'written-plainly'
                rec.violation(f'C09|variable-outside-trajectory-raised-{type(e).__name__}|{entry}:{written}',
                              f'{mname} through {entry}: {str(e)[:200]} ' + label, dict(case, formula=mname, entry=entry))
                rec.retire = True
                return False
            rec.case((key, 'misplaced', mname, entry) if key else None,
                     (mname, entry, out[0], sorted((str(k), round(v, 10)) for k, v in out[1].items()) if len(out) > 1 else None),
                     outcome=('misplaced', out[0]))
            store.setdefault((mname, entry), []).append((tag, out))
    return True


def _same_outcome(a, b):
    if a[0] != b[0]:
        return False
    if a[0] == 'refused':
        return True
    return sorted(a[1], key=str) == sorted(b[1], key=str) and all(close(a[1][k], b[1][k]) or (a[1][k] != a[1][k] and b[1][k] != b[1][k])
                                                                   for k in a[1])


def _judge_misplaced(rec, store, case, label, varied):
    """The result must not depend on the order of the individuals or of the rows of one individual: over all tables that
    are orders of the same rows the outcome (refusal, or the numbers per individual) must be one and the same."""
    for (mname, entry), obs in store.items():
        first_tag, first = obs[0]
        for tag, out in obs[1:]:
            if not _same_outcome(first, out):
                written = 'variable-outside-trajectory-through-a-catalog' if 'catalog' in mname else 'variable-outside-trajectory-written-plainly'
                rec.violation(f'C09|result-depends-on-the-order-of-the-rows-of-an-individual|{entry}:{written}',
                              f'formula {mname} (data variable outside the trajectory operator) through {entry}: table order {first_tag} '
                              f'gives {first}, table order {tag} gives {out} {label}',
                              dict(case, formula=mname, entry=entry, orders=[list(first_tag), list(tag)]),
                              expected='a refusal, or one result for every order of the rows', observed=[first, out])
                break
        if varied:
            rec.count('misplaced_formula_compared_over_row_orders')
        else:
            rec.count('misplaced_formula_single_row_individuals_only')


# ----------------------------------------------------------------------------- one live model, table edited through the Database interface
EDITS = [('scale', 'id', -1.0), ('scale', 'id', 2.0), ('scale', 'id', -0.5), ('scale', 'x1', 0.5), ('remove', 'first'), ('remove', 'last')]
OBSERVER_ORDERS = [('calculate_likelihood', 'calculate_likelihood_and_derivatives', 'simulate'),
                   ('simulate', 'calculate_likelihood_and_derivatives', 'calculate_likelihood')]


def edit_name(e):
    return f'scale_column({e[1]},{e[2]:g})' if e[0] == 'scale' else f'remove({e[1]}-individual)'


def live_histories(depth):
    out = []
    for d in range(1, depth + 1):
        out += [list(h) for h in itertools.product(range(len(EDITS)), repeat=d)]
    return out


def _live_history(task, rec):
    """Histories [model on panel data, observe, edit through the Database interface, observe, edit, observe] on ONE
    BIOGEME object holding {'log_like': log(f), 'v': f}: after every step the log likelihood (plain, scaled, with
    derivatives) and simulate must be those of the table as it is now - products over exactly the rows of each individual,
    one draw series per individual, sample size = number of individuals."""
    import numpy as np
    import biogeme.expressions as ex
    from vf.engine import make_biogeme

    comp, ids, fname = task['comp'], task['ids'], task['formula']
    formula = FORMULAS[fname] if fname in FORMULAS else LIVE_ONLY[fname]
    spec = {nm: (v, None, None, 0) for nm, v in PARAMS[0].items()}
    p = PARAMS[1]
    Rn = 2
    for oi in task['observer_orders']:
        for hist in task['histories']:
            rows = [dict(r) for r in base_rows(comp, ids)]
            case = dict(part='live', comp=comp, ids=ids, tier=task['tier'], formula=fname, observer_orders=[oi], histories=[hist])
            hname = '>'.join(edit_name(EDITS[i]) for i in hist)
            ckey = ('live', tuple(comp), tuple(ids), fname, oi, tuple(hist))
            done = 'start'
            try:
                db = make_panel_db(rows, [])
                db.panel('id')
                b = make_biogeme(db, {'log_like': build(spec, ('log', formula)), 'v': build(spec, formula)}, number_of_draws=Rn)
                x = np.array([p[nm] for nm in b.free_beta_names], dtype=float)
                pdict = {nm: p[nm] for nm in b.free_beta_names}
                trace = []
                ids_before = None
                wrong_at_start = False
                for step in [None] + list(hist):
                    if step is not None:
                        e = EDITS[step]
                        if e[0] == 'scale':
                            db.scale_column(e[1], e[2])
                            for r in rows:
                                r[e[1]] = r[e[1]] * e[2]
                        else:
                            present = sorted({r['id'] for r in rows})
                            if len(present) < 2:
                                rec.count('live_history_cut_no_individual_would_remain')
                                break
                            gone = present[0] if e[1] == 'first' else present[-1]
                            db.remove(ex.Variable('id') == gone)
                            rows = [r for r in rows if r['id'] != gone]
                        done = edit_name(e)
                    want = reference(formula, rows, p, Rn)
                    want_ll = sum(math.log(v) for v in want.values())
                    stale_ids, ids_before = ids_before, sorted(want)
                    for obs in OBSERVER_ORDERS[oi]:
                        if obs == 'calculate_likelihood':
                            ll = float(b.calculate_likelihood(x, scaled=False))
                            lls = float(b.calculate_likelihood(x, scaled=True))
                            ok = close(ll, want_ll, 1e-9) and close(lls * len(want), want_ll, 1e-9) and db.get_sample_size() == len(want)
                            got = dict(LL=ll, scaled=lls, sample_size=db.get_sample_size())
                            exp = dict(LL=want_ll, scaled=want_ll / len(want), sample_size=len(want))
                        elif obs == 'calculate_likelihood_and_derivatives':
                            ll = float(b.calculate_likelihood_and_derivatives(x, scaled=False).function)
                            ok = close(ll, want_ll, 1e-9)
                            got, exp = dict(LL=ll), dict(LL=want_ll)
                        else:
                            sim = b.simulate(pdict)
                            got = {float(i): float(v) for i, v in zip(sim.index, sim['v'])}
                            exp = want
                            ok = sorted(got) == sorted(want) and all(close(got[i], want[i]) for i in want)
                        trace.append((done, obs, sorted((str(k), round(float(v), 9)) for k, v in got.items())))
                        if not ok and obs == 'simulate' and stale_ids is not None and [float(i) for i in sim.index] == stale_ids \
                                and len(want) == len(stale_ids) and stale_ids != sorted(want) \
                                and all(close(float(v), want[i]) for v, i in zip(sim['v'], sorted(want))):
                            # one root cause, one key: the values are those of the individuals of the table as it is now, in their
                            # order, but they are labelled with the identifiers the individuals had before the edit
                            rec.violation('C09|simulate-attributes-values-to-stale-individual-identifiers|history=[model,scale_column(id),simulate]',
                                          f'{fname}, history [{hname}], observers {OBSERVER_ORDERS[oi]}: after {done} simulate gives {got}, '
                                          f'expected {exp} [comp={comp} ids={ids}]', case, expected=exp, observed=got)
                        elif not ok:
                            rec.violation(f'C09|live-model-not-following-the-table-after-database-edit|{obs}:after={done}',
                                          f'{fname}, history [{hname}], observers {OBSERVER_ORDERS[oi]}: after {done} {obs} gives {got}, '
                                          f'expected {exp} [comp={comp} ids={ids}]', case, expected=exp, observed=got)
                            wrong_at_start = wrong_at_start or step is None
                    if wrong_at_start:
                        # wrong before any edit: not a matter of this part (the permutation part reports it); the edits are not blamed
                        break
            except Exception as e:
                rec.case(ckey, ('raised', type(e).__name__, done), outcome=('live', 'raised'))
                rec.violation(f'C09|live-model-after-database-edit-raised-{type(e).__name__}|after={done}',
                              f'{fname}, history [{hname}] on comp={comp} ids={ids}: {str(e)[:200]}', case)
                rec.retire = True
                return
            rec.case(ckey, trace, outcome=('live', len(hist), len({r['id'] for r in rows})))


def _edit_history(task, rec):
    """History [declare panel, evaluate, edit database.data directly (drop the rows of one individual / append a new
    individual), evaluate]: the map of individuals is rebuilt before each evaluation, so the values, the sample size and
    the draws must be those of the table as it is now."""
    import pandas as pd
    comp, ids = task['comp'], task['ids']
    rows0 = base_rows(comp, ids)
    spec = {nm: (v, None, None, 0) for nm, v in PARAMS[0].items()}
    p = PARAMS[1]
    Rn = 2
    extra_id = float(max(ids) + 5)
    extra = [dict(x1=0.375, x2=-0.625, c2=1.0, id=extra_id), dict(x1=1.125, x2=0.25, c2=2.0, id=extra_id)]
    for edit in ('drop-first-individual', 'drop-last-individual', 'append-individual'):
        if edit.startswith('drop') and len(comp) < 2:
            continue
        log = []
        db = make_panel_db(rows0, log)
        db.panel('id')
        sorted_ids = sorted(set(r['id'] for r in rows0))
        if edit == 'drop-first-individual':
            rows1 = [r for r in rows0 if r['id'] != sorted_ids[0]]
        elif edit == 'drop-last-individual':
            rows1 = [r for r in rows0 if r['id'] != sorted_ids[-1]]
        else:
            rows1 = rows0 + extra
        # the edited table is kept sorted by individual, as the library leaves it after panel() (the calculator hands the
        # table to the engine before it re-sorts it, so an unsorted replacement table is outside what is explored here)
        rows1 = sorted(rows1, key=lambda r: r['id'])
        for fname in ('traj_exp', 'mc_traj', 'mc_two_draws'):
            formula = FORMULAS[fname]
            case = dict(part='edit', comp=comp, ids=ids, tier=task['tier'], edit=edit, formula=fname)
            try:
                expr = build(spec, formula)
                expr.get_value_c(database=db, betas=dict(p), number_of_draws=Rn, prepare_ids=True)   # establishes the map
                db.data = pd.DataFrame({c: [r[c] for r in rows1] for c in COLS})
                got = [float(v) for v in build(spec, formula).get_value_c(database=db, betas=dict(p), number_of_draws=Rn,
                                                                                     prepare_ids=True)]
                order = [float(i) for i in db.individualMap.index]
                ssize = db.get_sample_size()
            except Exception as e:
                rec.case(('edit', tuple(comp), tuple(ids), edit, fname), ('raised', type(e).__name__), outcome='raised')
                rec.violation(f'C09|evaluation-after-table-edit-raised-{type(e).__name__}|{edit}',
                              f'{fname} after {edit} on comp={comp} ids={ids}: {str(e)[:200]}', case)
                rec.retire = True
                return
            want = reference(formula, rows1, p, Rn)
            rec.case(('edit', tuple(comp), tuple(ids), edit, fname), (comp, ids, edit, fname, [round(v, 10) for v in got]), outcome=('edit', edit))
            if ssize != len(want) or len(got) != len(want) or sorted(order) != sorted(want) or \
                    any(not close(g, want[i]) for g, i in zip(got, order)):
                rec.violation(f'C09|stale-individual-map-after-table-edit|{edit}',
                              f'{fname} after {edit} on comp={comp} ids={ids}: values {dict(zip(order, got))} (sample size {ssize}), '
                              f'expected {want}', case, expected=want, observed=got)


def replay(case):
    if case.get('part') == 'edit':
        rec = Rec()
        _edit_history(case, rec)
        return rec.violations
    if case.get('part') in ('live', 'blocks'):
        return run_task(case)['violations']
    full = run_task(dict(comp=case['comp'], ids=case['ids'], tier=case['tier']))
    if 'orders' in case:
        vs = [v for v in full['violations'] if v['case'].get('formula') == case.get('formula') and v['case'].get('entry') == case.get('entry')
              and 'orders' in v['case']]
    else:
        vs = [v for v in full['violations'] if v['case'].get('perm') == case.get('perm')]
    return vs or full['violations']
