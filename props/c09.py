"""C09 — panel likelihood is the product over each individual's rows, with shared draws.

For every panel composition (1-3 individuals, 1-3 observations each, ids from {3,7,10} assigned in
every order) EVERY permutation of the table's rows is generated: permutations that keep each
individual's rows contiguous must be accepted and give, per individual (matched by id), the
plain-Python reference value (product over exactly its rows; inside MonteCarlo the mean over draws
of that product with ONE draw series per individual); all other permutations must be refused.
"""
from __future__ import annotations

import itertools
import math
import os

from vf import refsem as R
from vf.rec import Rec

ID = 'C09'
LEVEL = 'exploration'
TECHNIQUE = 'bounded exhaustive enumeration of panel compositions x id assignments x all row permutations on the real Database/engine vs a plain-Python product / mean-of-products reference'
RULE = ('one case = one (composition, id assignment, row permutation) table: contiguous ones are evaluated for 5 formulas x 2 parameter points x '
        'R in {1,2,3} through get_value_c, BIOGEME.calculate_likelihood and simulate; non-contiguous ones must be refused. Non-trivial = at least two '
        'individuals or an individual with >= 2 rows; distinct = distinct tables.')
ASSUMPTIONS = [
    'draws come from deterministic user-defined generators (value = function of the individual position in the sorted id map and of the draw index), '
    'so "the same draw for all rows of an individual" is observable exactly',
    'values at grid points only',
]
ANCHOR_FILES = ['src/biogeme/database.py', 'src/biogeme/biogeme.py', 'src/biogeme/expressions/unary_expressions.py',
                'src/biogeme/expressions/calculator.py', 'src/biogeme/expressions/idmanager.py', 'src/biogeme/tools/database.py']

_SEED = int(os.environ.get('VERIF_SEED', '0') or 0)
_POOLS = [
    dict(x1=[1.0, 2.0, 0.5, 1.5, 0.25, 0.75], x2=[-1.0, 0.5, 2.0, -0.25, 1.0, -0.5], c2=[1, 2, 2, 1, 1, 2]),
    dict(x1=[0.5, 1.25, 2.0, 0.75, 1.0, 0.25], x2=[1.0, -0.5, 0.25, 1.5, -1.5, 0.75], c2=[2, 1, 1, 2, 2, 1]),
]
POOL = _POOLS[_SEED % 2]
IDS = [[3, 7, 10], [12, 5, 8], [100, 2, 30]][(_SEED // 2) % 3]
# identifiers that are large and close to each other (survey-style ids), met in non-sorted order
IDS_LARGE = [2019002, 2019001, 2019003]
COLS = ['x2', 'id', 'c2', 'x1']
PARAMS = [dict(b1=0.5, b2=-0.75, s=0.25), dict(b1=-0.25, b2=0.5, s=1.0)]


def B(n):
    return ('beta', n)


def V(n):
    return ('var', n)


U = ('+', ('*', B('b1'), V('x1')), ('*', B('s'), ('draw', 'xi', 'DET_A')))
FORMULAS = {
    'traj_exp': ('traj', ('exp', ('*', B('b1'), V('x1')))),
    'traj_logit': ('traj', ('logit', V('c2'), ((1, ('*', B('b1'), V('x1')), None), (2, ('*', B('b2'), V('x2')), None)))),
    'mc_traj': ('mc', ('traj', ('exp', ('*', ('num', 0.5), U)))),
    'mc_traj_logit': ('mc', ('traj', ('logit', V('c2'), ((1, U, None), (2, ('*', B('b2'), V('x2')), None))))),
    'mc_two_draws': ('mc', ('traj', ('exp', ('*', ('num', 0.25), ('+', U, ('*', V('x2'), ('draw', 'eta', 'DET_B'))))))),
}


def det_a(k, r):
    return 0.1 * (k + 1) - 0.03 * (r + 1)


def det_b(k, r):
    return -0.2 * (k + 1) + 0.05 * (r + 1) * (r + 1)


def compositions(tier):
    maxtot = 4 if tier == 'quick' else 5
    out = []
    for n in (1, 2, 3):
        for comp in itertools.product((1, 2, 3), repeat=n):
            if sum(comp) <= maxtot:
                out.append(comp)
    if tier == 'thorough':
        out += [(3, 3), (2, 2, 2), (1, 2, 3)]
    return out


def tasks(tier, seed):
    t = []
    for comp in compositions(tier):
        n = len(comp)
        for ids in itertools.permutations(IDS, n):
            t.append(dict(comp=list(comp), ids=list(ids), tier=tier))
        if n >= 2 and (tier == 'thorough' or sum(comp) <= 3):
            for ids in itertools.permutations(IDS_LARGE, n):
                t.append(dict(comp=list(comp), ids=list(ids), tier=tier))
    return t


def base_rows(comp, ids):
    rows, k = [], 0
    for cnt, idv in zip(comp, ids):
        for _ in range(cnt):
            rows.append(dict(x1=POOL['x1'][k], x2=POOL['x2'][k], c2=float(POOL['c2'][k]), id=float(idv)))
            k += 1
    return rows


def contiguous(seq):
    seen, prev = set(), None
    for v in seq:
        if v != prev:
            if v in seen:
                return False
            seen.add(v)
            prev = v
    return True


def reference(formula, rows, params, Rn):
    """{id: value} per individual: sorted-id position k selects the draw series."""
    ids_sorted = sorted({r['id'] for r in rows})
    out = {}
    for k, idv in enumerate(ids_sorted):
        mine = [r for r in rows if r['id'] == idv]
        draws = {'xi': [det_a(k, r) for r in range(Rn)], 'eta': [det_b(k, r) for r in range(Rn)]}
        out[idv] = R.evaluate(formula, row=mine[0], params=params, draws=draws, rows=mine)
    return out


def close(a, b, rel=1e-10):
    return a == b or abs(a - b) <= 1e-13 + rel * max(abs(a), abs(b))


def make_panel_db(rows, log, index_mode=0):
    import numpy as np
    from vf.engine import make_db

    db = make_db(rows, COLS)
    if index_mode:
        # row labels that are neither 0..n-1 nor sorted (as left by earlier filtering / concatenation of the user's frame)
        db.data.index = [(7 * i + 3) % 23 for i in range(len(rows))]

    def gen_a(n, r_):
        log.append(('DET_A', n, r_))
        return np.array([[det_a(k, r) for r in range(r_)] for k in range(n)], dtype=float)

    def gen_b(n, r_):
        log.append(('DET_B', n, r_))
        return np.array([[det_b(k, r) for r in range(r_)] for k in range(n)], dtype=float)

    db.set_random_number_generators({'DET_A': (gen_a, 'deterministic A'), 'DET_B': (gen_b, 'deterministic B')})
    return db


def run_task(task):
    import numpy as np
    from biogeme.exceptions import BiogemeError
    from vf.engine import make_biogeme

    rec = Rec()
    comp, ids, tier = task['comp'], task['ids'], task['tier']
    _edit_history(task, rec)
    if rec.retire:
        return rec.result()
    rows0 = base_rows(comp, ids)
    n = len(rows0)
    nind = len(comp)
    spec = {nm: (v, None, None, 0) for nm, v in PARAMS[0].items()}
    Rs = (2,) if tier == 'quick' else (1, 2, 3)
    nontrivial = nind >= 2 or max(comp) >= 2
    rec.sample(dict(composition=comp, ids=ids, permutations=math.factorial(n)))
    refs = {}
    for fname, formula in FORMULAS.items():
        for pi, p in enumerate(PARAMS):
            for Rn in Rs:
                refs[(fname, pi, Rn)] = reference(formula, rows0, p, Rn)

    for perm in itertools.permutations(range(n)):
        rows = [rows0[i] for i in perm]
        idseq = [r['id'] for r in rows]
        case = dict(comp=comp, ids=ids, perm=list(perm), tier=tier)
        key = ('table', tuple(comp), tuple(ids), perm) if nontrivial else None

        def bad(clause, what, **kw):
            rec.violation(f'C09|{clause}|{kw.pop("where", "panel")}', what + f' [comp={comp} ids={ids} perm={perm}]', dict(case, **kw))

        log = []
        db = make_panel_db(rows, log, index_mode=sum(perm[:2]) % 2)
        if not contiguous(idseq):
            try:
                db.panel('id')
                rec.case(key, (comp, ids, perm, 'accepted-noncontiguous'), outcome='noncontiguous-accepted')
                bad('non-contiguous-panel-accepted', f'id sequence {idseq} accepted by Database.panel')
            except BiogemeError:
                rec.case(key, (comp, ids, perm, 'refused'), outcome='noncontiguous-refused')
            except Exception as e:
                rec.case(key, (comp, ids, perm, type(e).__name__), outcome='noncontiguous-other-error')
                bad(f'non-contiguous-panel-wrong-error-{type(e).__name__}', str(e)[:200])
            continue
        try:
            db.panel('id')
        except Exception as e:
            rec.case(key, (comp, ids, perm, 'raised'), outcome='contiguous-refused')
            bad(f'contiguous-panel-refused-{type(e).__name__}', f'id sequence {idseq}: {str(e)[:200]}')
            continue
        # structure of the individual map
        imap = db.individualMap
        blocks = {float(i): (int(imap.loc[i][0]), int(imap.loc[i][1])) for i in imap.index}
        data_ids = [float(v) for v in db.data['id']]
        okmap = sorted(blocks) == sorted(set(idseq)) and db.get_sample_size() == nind
        covered = []
        for i, (lo, hi) in blocks.items():
            okmap = okmap and all(data_ids[j] == i for j in range(lo, hi + 1)) and hi - lo + 1 == idseq.count(i)
            covered += list(range(lo, hi + 1))
        okmap = okmap and sorted(covered) == list(range(n))
        rec.case(key, (comp, ids, perm, sorted(blocks.items())), outcome=('contiguous', nind))
        if not okmap:
            bad('individual-map-not-a-partition-into-contiguous-blocks', f'map={blocks} ids in data={data_ids} sample size={db.get_sample_size()}')
            continue
        order = [float(i) for i in imap.index]
        for fname, formula in FORMULAS.items():
            has_draws = bool(R.leaves(formula, 'draw'))
            for pi, p in enumerate(PARAMS):
                for Rn in Rs:
                    if not has_draws and Rn != Rs[0]:
                        continue
                    want = refs[(fname, pi, Rn)]
                    kw = dict(formula=fname, point=pi, R=Rn)
                    # expression-level entry point
                    try:
                        del log[:]
                        expr = R.Builder(spec).build(formula)
                        got = [float(v) for v in expr.get_value_c(database=db, betas=dict(p), number_of_draws=Rn,
                                                                  prepare_ids=True)]
                    except Exception as e:
                        bad(f'raised-{type(e).__name__}', f'{fname}: {str(e)[:200]}', where='get_value_c', **kw)
                        rec.retire = True
                        return rec.result()
                    rec.case((key, fname, pi, Rn) if key else None, (fname, pi, Rn, [round(v, 10) for v in got]), outcome=('value', fname))
                    if len(got) != nind:
                        bad('one-value-per-individual', f'{fname}: {len(got)} values for {nind} individuals', where='get_value_c', **kw)
                        continue
                    if any(not close(g, want[i]) for g, i in zip(got, order)):
                        bad('trajectory-value', f'{fname} R={Rn} point={pi}: {dict(zip(order, got))} expected {want}',
                            where='get_value_c:' + fname, **kw)
                    if has_draws:
                        if any(sz != nind for _, sz, _ in log) or not log:
                            bad('draws-not-dimensioned-by-individuals', f'{fname}: generators called with {log}, individuals={nind}',
                                where='generate_draws', **kw)
                        if db.theDraws.shape[0] != nind or db.theDraws.shape[1] != Rn:
                            bad('draw-table-shape', f'{db.theDraws.shape} for {nind} individuals, R={Rn}', where='generate_draws', **kw)
            # BIOGEME: log likelihood = sum over individuals of log(trajectory); simulate is per individual
            for pi, p in enumerate(PARAMS):
                Rn = Rs[-1]
                want = refs[(fname, pi, Rn)]
                kw = dict(formula=fname, point=pi, R=Rn)
                try:
                    ll_expr = R.Builder(spec).build(('log', formula))
                    b = make_biogeme(db, ll_expr, number_of_draws=Rn)
                    names = list(b.free_beta_names)
                    x = np.array([p[nm] for nm in names], dtype=float)
                    ll = float(b.calculate_likelihood(x, scaled=False))
                    lls = float(b.calculate_likelihood(x, scaled=True))
                    bs = make_biogeme(db, {'v': R.Builder(spec).build(formula)}, number_of_draws=Rn)
                    sim = bs.simulate({nm: p[nm] for nm in bs.free_beta_names})
                except Exception as e:
                    bad(f'raised-{type(e).__name__}', f'{fname}: {str(e)[:200]}', where='BIOGEME', **kw)
                    rec.retire = True
                    return rec.result()
                rec.case((key, fname, pi, 'biogeme') if key else None, (fname, pi, round(ll, 9)), outcome=('biogeme', fname))
                want_ll = sum(math.log(v) for v in want.values())
                if not close(ll, want_ll, 1e-9):
                    bad('log-likelihood-not-sum-over-individuals', f'{fname}: LL={ll!r} expected {want_ll!r}', where='BIOGEME:' + fname, **kw)
                if not close(lls, ll / nind, 1e-12):
                    bad('scaled-likelihood-not-divided-by-number-of-individuals', f'{fname}: scaled={lls!r} LL={ll!r} individuals={nind}',
                        where='BIOGEME', **kw)
                simd = {float(i): float(v) for i, v in zip(sim.index, sim['v'])}
                if sorted(simd) != sorted(want) or any(not close(simd[i], want[i]) for i in want):
                    bad('simulate-per-individual', f'{fname}: simulate={simd} expected {want}', where='simulate:' + fname, **kw)
    return rec.result()


def _edit_history(task, rec):
    """History [declare panel, evaluate, edit database.data directly (drop the rows of one individual / append a new
    individual), evaluate]: the map of individuals is rebuilt before each evaluation, so the values, the sample size and
    the draws must be those of the table as it is now."""
    import pandas as pd
    comp, ids = task['comp'], task['ids']
    rows0 = base_rows(comp, ids)
    spec = {nm: (v, None, None, 0) for nm, v in PARAMS[0].items()}
    p = PARAMS[1]
    Rn = 2
    extra_id = float(max(ids) + 5)
    extra = [dict(x1=0.375, x2=-0.625, c2=1.0, id=extra_id), dict(x1=1.125, x2=0.25, c2=2.0, id=extra_id)]
    for edit in ('drop-first-individual', 'drop-last-individual', 'append-individual'):
        if edit.startswith('drop') and len(comp) < 2:
            continue
        log = []
        db = make_panel_db(rows0, log)
        db.panel('id')
        sorted_ids = sorted(set(r['id'] for r in rows0))
        if edit == 'drop-first-individual':
            rows1 = [r for r in rows0 if r['id'] != sorted_ids[0]]
        elif edit == 'drop-last-individual':
            rows1 = [r for r in rows0 if r['id'] != sorted_ids[-1]]
        else:
            rows1 = rows0 + extra
        # the edited table is kept sorted by individual, as the library leaves it after panel() (the calculator hands the
        # table to the engine before it re-sorts it, so an unsorted replacement table is outside what is explored here)
        rows1 = sorted(rows1, key=lambda r: r['id'])
        for fname in ('traj_exp', 'mc_traj', 'mc_two_draws'):
            formula = FORMULAS[fname]
            case = dict(part='edit', comp=comp, ids=ids, tier=task['tier'], edit=edit, formula=fname)
            try:
                expr = R.Builder(spec).build(formula)
                expr.get_value_c(database=db, betas=dict(p), number_of_draws=Rn, prepare_ids=True)   # establishes the map
                db.data = pd.DataFrame({c: [r[c] for r in rows1] for c in COLS})
                got = [float(v) for v in R.Builder(spec).build(formula).get_value_c(database=db, betas=dict(p), number_of_draws=Rn,
                                                                                     prepare_ids=True)]
                order = [float(i) for i in db.individualMap.index]
                ssize = db.get_sample_size()
            except Exception as e:
                rec.case(('edit', tuple(comp), tuple(ids), edit, fname), ('raised', type(e).__name__), outcome='raised')
                rec.violation(f'C09|evaluation-after-table-edit-raised-{type(e).__name__}|{edit}',
                              f'{fname} after {edit} on comp={comp} ids={ids}: {str(e)[:200]}', case)
                rec.retire = True
                return
            want = reference(formula, rows1, p, Rn)
            rec.case(('edit', tuple(comp), tuple(ids), edit, fname), (comp, ids, edit, fname, [round(v, 10) for v in got]), outcome=('edit', edit))
            if ssize != len(want) or len(got) != len(want) or sorted(order) != sorted(want) or \
                    any(not close(g, want[i]) for g, i in zip(got, order)):
                rec.violation(f'C09|stale-individual-map-after-table-edit|{edit}',
                              f'{fname} after {edit} on comp={comp} ids={ids}: values {dict(zip(order, got))} (sample size {ssize}), '
                              f'expected {want}', case, expected=want, observed=got)


def replay(case):
    if case.get('part') == 'edit':
        rec = Rec()
        _edit_history(case, rec)
        return rec.violations
    full = run_task(dict(comp=case['comp'], ids=case['ids'], tier=case['tier']))
    vs = [v for v in full['violations'] if v['case'].get('perm') == case.get('perm')]
    return vs or full['violations']
