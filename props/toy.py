"""Toy driver for the kernel self-test: a stateful object with a planted ordering bug
(best-marker only set once) and a planted torn-write bug (in-place rewrite)."""
import itertools
from vf.rec import Rec
from vf.fakefs import FakeFS

ID = 'TOY'
LEVEL = 'fault_enumeration'
RULE = 'toy'


class Store:
    def __init__(self, fs, buggy_order, buggy_write):
        self.fs, self.best = fs, None
        self.buggy_order, self.buggy_write = buggy_order, buggy_write

    def put(self, v):
        if self.best is None:
            self.best = v
        if v >= self.best:
            if not self.buggy_order:
                self.best = v
            name = 'f' if self.buggy_write else 'f.tmp'
            with self.fs.open(name, 'w') as fh:
                fh.write(f'{v}\n')
            if not self.buggy_write:
                self.fs.os().replace('f.tmp', 'f')


def tasks(tier, seed):
    return [dict(bo=bo, bw=bw) for bo in (0, 1) for bw in (0, 1)]


def run_task(task):
    rec = Rec()
    for hist in itertools.product([1, 2, 3], repeat=3):
        fs = FakeFS()
        s = Store(fs, task['bo'], task['bw'])
        best = None
        for i, v in enumerate(hist):
            s.put(v)
            best = v if best is None else max(best, v)
            rec.case((task['bo'], task['bw'], hist[:i + 1]), fs.files.get('f'))
            if fs.files.get('f') != f'{best}\n'.encode():
                rec.violation('TOY|order', f'{hist[:i+1]} -> {fs.files.get("f")}', dict(hist=hist[:i + 1], **task))
                break
        for label, img in fs.crash_images():
            rec.case(None, (hist, label))
            c = img.get('f')
            if c is not None and (not c.endswith(b'\n') or not c):
                rec.violation('TOY|torn', f'{hist} {label} -> {c}', dict(hist=hist, crash=label, **task))
    return rec.result()


def replay(case):
    rec = Rec()
    r = run_task(dict(bo=case['bo'], bw=case['bw']))
    return r['violations']
