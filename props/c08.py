"""C08 — reported statistics obey their defining formulas.

Bounded exhaustive exploration: the full product of small alphabets of *raw estimation outcomes*
(K in 1..6, Hessian family, BHHH family, estimates, log likelihoods, bootstrap sample, bounds, sample
size) is injected into the real ``biogeme.results.RawResults`` / ``bioResults`` through a stub model
object exposing exactly the attributes ``RawResults.__init__`` reads; every cell of every tabular /
textual view is compared with the quantity its row / column label names, recomputed by the plain-Python
reference ``vf.ref_stats`` (exact rational linear algebra).  The classical, robust and bootstrap
families are recomputed separately, so that a value of one family in another family's column is caught.

Views of one outcome: the fields _calculate_stats stores on ``data``; get_estimated_parameters (both switches);
get_correlation_results (every subset of the names + one with an unknown name); get_general_statistics;
print_general_statistics; get_var_covar / get_robust_var_covar / get_bootstrap_var_covar; short_summary; __str__;
get_html (both switches); get_f12 (both switches); for K >= 4 also the file written by write_f12 (both switches).

Parts:  'o' outcomes x all views - the original product with unit-scale Hessians and identification_threshold
1e-5, plus the product (parameter scaling: unit / all tiny / one or two badly scaled parameters / all huge) x
(identification_threshold of the results object: constructor default, 0, 1e-9, 1e-5, 1e-2, 1, 1e4) x outcome, plus
the product (UNITS of the parameters: every parameter in units of 2^-E or 2^+E, E on a ladder with one rung per
decade up to 2^40, or each parameter in its own large unit 2^-27..2^-31 - a coefficient of a variable measured in
very large units: estimates and standard errors down to 1e-12 / up to 1e+12 with the same t, p, correlations and
pairwise tests as in unit scale) x outcome (K = 1..3 and a slice with K >= 4), plus
the 'wide' outcomes with K = 4, 5, 6 parameters (where the list of pairs (i, j), i > j, has more than one plausible
order, K = 5 fills exactly one line of ten F12 correlations and K = 6 needs a second one): product of Hessian family
(diagonal / tridiagonal / dense / rank K-1 / rank 1 / zero row) x BHHH x estimates x bootstrap sample (fewer / as many
/ more replications than parameters / a constant column) x bounds x log likelihoods; every K also with a bootstrap
sample of ONE replication (the whole bootstrap family is undefined and skipped, every other cell is compared);
'c' compile_estimation_results over all ordered tuples of 1..3 models from a pool x all 2^5 flag combinations x the
list of statistic rows (default / init-model rows / null-model rows / the rows a model has only conditionally; a row
that a model of the tuple does not have may be refused with a KeyError naming it, else its cell is empty);
the pool also holds two models in very large units (tables of 1..2 models, thorough 1..3, with at least one of them);
'p' the same call with every entry given as a results object / the name of its pickle file / a name behind which
nothing can be read (missing, corrupt, foreign pickle, empty file, directory) - full product of the kinds over the
positions - and compile_results_in_directory on the same files;  'l' likelihood_ratio_test over the full grid of
ordered pairs ((L1,K1),(L2,K2)) x level, function and method form, INCLUDING equal log likelihoods (statistic 0) and
equal parameter counts (no test exists: only a refusal reports no figure);
'r' real estimations (real BIOGEME objects with 1, 2 and 4 parameters, bootstrap resamples owned through
numpy.random.randint - also tapes of a single replication -, the identification_threshold parameter of BIOGEME; one
logit starts from non-zero values so that its initial and null log likelihood differ; a least-squares model and a
logit without constant whose variables are in units of 2^30 / 2^27 / 2^33 / 2^40 (by VERIF_SEED)).
"""
from __future__ import annotations

import itertools
import math
import os
import re

from vf import ref_stats as rs
from vf.rec import Rec

ID = 'C08'
LEVEL = 'exploration'
TECHNIQUE = ('bounded exhaustive enumeration of synthetic raw estimation outcomes (full product of finite alphabets) '
             'and report switches on the real bioResults code, every reported cell compared with an independent '
             'exact-rational recomputation of the quantity its label names')
RULE = ('cases: (o) one case per (raw outcome, view[, switch]) with outcome = element of the product K x Hessian x BHHH x '
        'estimates x (null, init) log likelihood x bootstrap sample x bounds x sample size [x parameter scaling x '
        'identification threshold | x units of the parameters: all in 2^-E / 2^+E, E in {13,17,20,23,27,30,33,37,40} (quick: '
        '+20,+27,+33,+40,-20,-30,-40), or one large unit per parameter (2^-27..2^-31)], K = 1..3 with every subset of the names for get_correlation_results, K = 4..6 with '
        'the leave-one-out subsets (a slice with all 2^K subsets) and the F12 report also read back from write_f12; (c) one case per (ordered tuple of 1..3 pool models, 5 flags, statistics list); '
        '(statistics list: default / init rows / null rows / conditional rows); (p) one case per (ordered tuple of 1..3 pool models, kind of each entry - object / pickle file / one of the '
        'unreadable kinds -, call form dict / directory, flags); (l) one case per ordered pair ((L1,K1),(L2,K2)), alpha and call form, ties and equal parameter counts included; '
        '(r) one case per (real model, bootstrap tape, identification threshold, view). A case is non-trivial when at least one numeric cell was '
        'compared with the reference (cells whose defining formula is undefined - zero variance, zero divisor - are '
        'skipped and counted); distinct = distinct (part, outcome / tuple / grid point, view, switch) keys.')
ASSUMPTIONS = [
    'raw outcomes are injected through a stub model object with exactly the attributes RawResults.__init__ reads; '
    'part (r) confirms on real BIOGEME objects that the same fields are filled',
    'domain: at most 6 parameters; Hessians are negative semi-definite with entries on a small dyadic grid (exactly singular or condition '
    'number < 100), optionally rescaled by a diagonal congruence with powers of two (eigenvalues of -H down to 2^-28, '
    'condition number up to about 1e9, still far from floating-point singularity; the library agrees with the exact '
    'reference to 1e-12 there) or expressed in other units (all parameters rescaled by the same 2^E, |E| <= 40, which '
    'keeps the condition number, or by 2^27..2^31 each, which multiplies it by at most 2^8; standard errors from '
    'about 1e-12 to 1e+12; there the absolute part of the tolerance of a standard error / covariance is taken in '
    'the unit of the parameter / relative to the largest entry of the matrix: the tolerance of the same outcome in unit scale); rescaled outcomes whose robust sandwich has an entry that is an exact or near '
    'cancellation (ratio > 1e6) are excluded and counted; cells whose formula is undefined (zero variance, non-positive pair variance, zero initial '
    'likelihood, every figure of the bootstrap family when the sample holds a single replication - the library shows '
    'NaN standard errors with t = 0, p = 1 there, a convention that is neither checked nor demanded) are skipped and counted, not compared; a statistic within 1e-9 of the threshold of the LR test is a fragile verdict (counted); so are pairwise tests whose variance '
    'var(i) + var(j) - 2 cov(i,j) is a near cancellation (below 1e-4 of var(i) + var(j) + 2|cov(i,j)|: ill-conditioned; it '
    'occurs only for K >= 4 in the enumerated space) and standard errors of a variance that is exactly zero by the formula '
    'while the library\'s own matrix holds negative rounding noise there (the sign of a computed zero is arbitrary; the '
    'library then reports the largest float; the matrix entry itself is still compared with 0)',
    'p-values are compared with an absolute tolerance of 1e-12 (+ propagated 1e-10 relative error of t): for |t| > 7 all '
    'p-values are indistinguishable from 0 at that tolerance',
    'text views (print_general_statistics, short_summary, __str__, get_html, get_f12) are compared after formatting the '
    'reference with the same format specification (figures below 1e-6 of the scale, printed with 3 digits, are rounding '
    'noise and skipped); eigen-structure figures, the identification warning, timing fields and get_latex are not '
    'checked',
    'a column of a compiled table whose entry cannot be read (no results exist for that model) must hold no figure; '
    'which warning is logged for it is not checked; readable pickle files are written by bioResults.write_pickle',
    'results without a Hessian or without an initial log likelihood (quick_estimate) are outside the quantifier; the '
    'initial log likelihood "absent" / "zero" alphabets only check that the remaining cells stay correct',
    'likelihood_ratio_test: two equal log likelihoods with different parameter counts are an ordinary nested pair '
    '(statistic 0, not rejected) in either order; for equal parameter counts no chi-square quantile exists, so any '
    'reported threshold / verdict is a figure without a defining formula - a BiogemeError is the expected answer '
    '(its wording is not checked)',
    'compile_estimation_results asked for a row that a model of the call does not have (null-model rows without a null '
    'log likelihood, free parameters without an active bound, observations equal to the sample size) may refuse with '
    'the KeyError naming that row (counted); if it answers, the cell must be empty',
    'the reference normal CDF is math.erfc, the chi-square CDF a series / continued fraction written for this check',
]
ANCHOR_FILES = ['src/biogeme/results.py', 'src/biogeme/tools/likelihood_ratio.py']
DETERMINISM_SLICE = 3

_SEED = int(os.environ.get('VERIF_SEED', '0') or 0)
RTOL, ATOL = 1e-10, 1e-12

# ----------------------------------------------------------------------------------------- alphabets
NAME_POOLS = [
    {1: ['B2'], 2: ['b_z', 'B2'], 3: ['b_z', 'B2', 'b10']},
    {1: ['asc'], 2: ['beta_time', 'asc'], 3: ['beta_time', 'asc', 'beta_cost']},
    {1: ['b10'], 2: ['b10', 'b_a'], 3: ['b_a', 'b10', 'B2']},
    {1: ['mu'], 2: ['lambda', 'mu'], 3: ['mu', 'Lambda', 'alpha 1']},
]
H_SCALE = [1.0, 2.0, 0.5, 4.0, 0.25, 8.0, 0.125, 3.0]
V_SCALE = [1.0, -2.0, 0.5, 3.0, -1.0, 1.5, 0.25, -0.75]
LL_FINAL = [-12.0, -7.5, -100.25, -3.0, -45.5, -1.25, -250.0, -33.0]

# A = -H (positive semi-definite); (label, matrix)
A_FAMILY = {
    1: [('nd', [[2.0]]), ('nd-small', [[0.5]]), ('zero', [[0.0]])],
    2: [('nd-diag', [[4.0, 0.0], [0.0, 2.0]]), ('nd-corr', [[4.0, -1.0], [-1.0, 2.0]]),
        ('nd-corr2', [[2.0, 1.5], [1.5, 3.0]]), ('rank1', [[1.0, 1.0], [1.0, 1.0]]),
        ('zero-row', [[2.0, 0.0], [0.0, 0.0]])],
    3: [('nd-diag', [[1.0, 0.0, 0.0], [0.0, 2.0, 0.0], [0.0, 0.0, 4.0]]),
        ('nd-tri', [[4.0, 1.0, 0.0], [1.0, 3.0, 1.0], [0.0, 1.0, 2.0]]),
        ('nd-full', [[4.0, 1.0, 2.0], [1.0, 3.0, -1.0], [2.0, -1.0, 5.0]]),
        ('rank2', [[2.0, 1.0, 1.0], [1.0, 2.0, -1.0], [1.0, -1.0, 2.0]]),
        ('rank1', [[1.0, 2.0, 1.0], [2.0, 4.0, 2.0], [1.0, 2.0, 1.0]]),
        ('zero-row', [[3.0, 0.0, 1.0], [0.0, 0.0, 0.0], [1.0, 0.0, 2.0]])],
}
B_GENERIC = {1: [[3.0]], 2: [[3.0, 0.5], [0.5, 2.0]], 3: [[3.0, 1.0, 0.5], [1.0, 2.0, -0.5], [0.5, -0.5, 1.0]]}
B_RANK1 = {1: [[4.0]], 2: [[1.0, 2.0], [2.0, 4.0]], 3: [[1.0, 2.0, -1.0], [2.0, 4.0, -2.0], [-1.0, -2.0, 1.0]]}
B_KINDS = ['info', 'scaled', 'generic', 'rank1']
V_BASE = {
    1: [[1.5], [-0.25], [0.0]],
    2: [[1.5, -0.5], [0.75, 0.75], [0.0, 2.0]],
    3: [[1.5, -0.5, 0.25], [2.0, 2.0, -1.0], [0.0, -0.125, 3.0]],
}

# ---- wide outcomes: K = 4, 5, 6 (part 'w').  With four or more parameters the pairs (i, j), i > j, have more than
# one plausible enumeration order ((2,1) (3,1) (3,2) (4,1).. against (2,1) (3,1) (4,1) (3,2)..), K = 5 fills exactly one
# line of ten correlations of the F12 report and K = 6 needs a second one.  The matrices are the leading K x K blocks
# of 6 x 6 masters on a half-integer grid (strictly diagonally dominant, so every leading block is positive definite,
# condition number < 10; the classical and the robust correlations of the dense family (and the bootstrap ones with
# eight replications) are pairwise different, so a figure standing in the place of another pair's is seen).
WIDE_K = (4, 5, 6)
WIDE_NAMES = [
    ['b_z', 'B2', 'b10', 'a_1', 'beta_time_car', 'Z9'],
    ['beta_time', 'asc', 'beta_cost', 'asc_train', 'beta_headway', 'b_dist'],
    ['b_a', 'b10', 'B2', 'b2', 'c_long_name_11', 'A0'],
    ['mu', 'Lambda', 'alpha 1', 'lambda', 'sigma_pt_sq', 'alpha 0'],
]
for _p, _names in zip(NAME_POOLS, WIDE_NAMES):
    for _k in WIDE_K:
        _p[_k] = _names[:_k]
A_MASTER = [[6.0, 1.0, -2.0, 0.5, 1.5, -0.5],
            [1.0, 5.0, 1.5, -1.0, 0.5, 0.5],
            [-2.0, 1.5, 7.0, 1.0, -0.5, 1.0],
            [0.5, -1.0, 1.0, 6.0, 2.0, -1.0],
            [1.5, 0.5, -0.5, 2.0, 8.0, 1.5],
            [-0.5, 0.5, 1.0, -1.0, 1.5, 7.0]]
A_TRI_DIAG, A_TRI_OFF = [4.0, 3.0, 2.0, 3.0, 4.0, 5.0], [1.0, -1.0, 0.5, 1.0, -0.5]
A_DIAG = [1.0, 2.0, 4.0, 0.5, 3.0, 1.5]
# rank K-1: M' M with M the leading (K-1) x K block of
A_FACTOR = [[1, 1, 0, -1, 1, 0], [0, 1, 2, 1, -1, 1], [1, -1, 1, 0, 2, -1], [2, 0, -1, 1, 0, 1], [0, 1, 1, -2, 1, 2]]
A_RANK1_VEC = [1.0, 2.0, 1.0, -1.0, 2.0, -1.0]
B_MASTER = [[4.0, 1.0, 0.5, -1.0, 0.5, 0.0],
            [1.0, 3.5, -0.5, 0.5, 0.0, 1.0],
            [0.5, -0.5, 3.0, 1.0, -0.5, 0.25],
            [-1.0, 0.5, 1.0, 5.0, 1.5, -0.5],
            [0.5, 0.0, -0.5, 1.5, 4.0, 1.0],
            [0.0, 1.0, 0.25, -0.5, 1.0, 4.5]]
B_RANK1_VEC = [1.0, 2.0, -1.0, 1.0, -2.0, 3.0]
V_MASTER = [[1.5, -0.5, 0.25, 2.0, -1.25, 0.75], [2.0, 2.0, -1.0, -1.0, 0.5, 3.0], [0.0, -0.125, 3.0, 1.0, 1.0, -2.0]]


def _block(mat, k):
    return [list(row[:k]) for row in mat[:k]]


def _wide_family(k):
    tri = [[A_TRI_DIAG[i] if i == j else (A_TRI_OFF[min(i, j)] if abs(i - j) == 1 else 0.0) for j in range(k)]
           for i in range(k)]
    fac = [row[:k] for row in A_FACTOR[:k - 1]]
    rdef = [[float(sum(r[i] * r[j] for r in fac)) for j in range(k)] for i in range(k)]
    full = _block(A_MASTER, k)
    zrow = [[0.0 if 1 in (i, j) else full[i][j] for j in range(k)] for i in range(k)]
    return [('nd-diag', [[A_DIAG[i] if i == j else 0.0 for j in range(k)] for i in range(k)]),
            ('nd-tri', tri), ('nd-full', full), ('rank-def', rdef),
            ('rank1', [[A_RANK1_VEC[i] * A_RANK1_VEC[j] for j in range(k)] for i in range(k)]),
            ('zero-row', zrow)]


for _k in WIDE_K:
    A_FAMILY[_k] = _wide_family(_k)
    B_GENERIC[_k] = _block(B_MASTER, _k)
    B_RANK1[_k] = [[B_RANK1_VEC[i] * B_RANK1_VEC[j] for j in range(_k)] for i in range(_k)]
    V_BASE[_k] = [v[:_k] for v in V_MASTER]
# bootstrap replications of the wide outcomes (rows of width 6): fewer replications than parameters ('r3': the sample
# covariance is singular), about as many ('r5'), more ('r8': regular), a parameter that never moves ('const')
BOOT_WIDE = [
    {'r3': [[0, 2, 6, 5, 6, 2], [1, 5, 4, 5, 1, 6], [1, 0, 1, 4, 2, 2]],
     'r5': [[0, 2, 6, 5, 6, 2], [1, 5, 4, 5, 1, 6], [1, 0, 1, 4, 2, 2], [0, 1, 4, 2, 2, 4], [5, 1, 6, 6, 1, 5]],
     'r8': [[0, 2, 6, 5, 6, 2], [1, 5, 4, 5, 1, 6], [1, 0, 1, 4, 2, 2], [0, 1, 4, 2, 2, 4], [5, 1, 6, 6, 1, 5],
            [2, 0, 0, 2, 6, 5], [5, 5, 0, 4, 3, 4], [0, 2, 6, 5, 6, 2]],
     'const': [[1, 2, 6, 5, 6, 2], [1, 5, 4, 5, 1, 6], [1, 0, 1, 4, 2, 2], [1, 1, 4, 2, 2, 4], [1, 1, 6, 6, 1, 5]]},
    {'r3': [[1, 5, 4, 5, 1, 6], [3, 2, 3, 6, 4, 4], [4, 5, 1, 6, 6, 1]],
     'r5': [[1, 5, 4, 5, 1, 6], [3, 2, 3, 6, 4, 4], [4, 5, 1, 6, 6, 1], [4, 0, 5, 5, 0, 4], [3, 1, 1, 3, 0, 6]],
     'r8': [[1, 5, 4, 5, 1, 6], [3, 2, 3, 6, 4, 4], [4, 5, 1, 6, 6, 1], [4, 0, 5, 5, 0, 4], [3, 1, 1, 3, 0, 6],
            [1, 1, 3, 0, 6, 0], [5, 0, 4, 3, 4, 0], [1, 5, 4, 5, 1, 6]],
     'const': [[2, 5, 4, 5, 1, 6], [2, 2, 3, 6, 4, 4], [2, 5, 1, 6, 6, 1], [2, 0, 5, 5, 0, 4], [2, 1, 1, 3, 0, 6]]},
]
BOOT_SETS = [
    {'r2': [[1, 2, 0], [3, 1, 1]],
     'r3': [[1, 2, 0], [2, 1, 3], [4, 5, 1]],
     'r5': [[1, 2, 0], [2, 1, 3], [4, 5, 1], [0, 1, 2], [3, 3, 3]],
     'const': [[1, 2, 0], [1, 4, 3], [1, 5, 1]],
     'r4': [[0, 0, 1], [1, 3, 0], [2, 1, 1], [5, 2, 4]]},
    {'r2': [[0, 1, 3], [1, 4, 1]],
     'r3': [[2, 0, 1], [0, 3, 2], [1, 1, 5]],
     'r5': [[2, 0, 1], [0, 3, 2], [1, 1, 5], [4, 2, 0], [3, 4, 3]],
     'const': [[2, 0, 1], [2, 3, 2], [2, 1, 5]],
     'r4': [[1, 0, 0], [0, 2, 3], [3, 1, 1], [2, 5, 2]]},
]
BOOT_SCALE = [1.0, 0.5, 0.25, 2.0, 1.0, 0.125, 4.0, 0.75]
# 'r1': a bootstrap sample of ONE replication.  The sample covariance (divisor B - 1 = 0) and with it every figure of
# the bootstrap family is undefined: those cells are skipped and counted, every other cell of every view must still
# hold the quantity its label names (and no view may fail).
for _sets in (BOOT_SETS, BOOT_WIDE):
    for _s in _sets:
        _s['r1'] = [list(_s['r3'][0])]
BOUND_KINDS = ['none', 'active', 'near', 'wide']
N_KINDS = [(10, 30), (1, 1), (1000, 1000)]
INIT_KINDS = ['present', 'zero', 'equal', 'absent']
NULL_KINDS = ['present', 'absent']
# scaling of the parameters (congruence D (-H) D, D B D with D diagonal, powers of two; estimates and bootstrap
# replications are divided by D: the same outcome in other units).  'unit' is the original alphabet.  The others give
# regular, well-conditioned-in-floating-point Hessians whose eigenvalues are far from 1: all tiny ('tiny': 2^-24),
# one / two badly scaled parameters ('mixed': last one 2^-12; 'mixed2': 2^-10, 1, 2^-14), all large ('huge': 2^20).
HSC_KINDS = ['unit', 'tiny', 'mixed', 'mixed2', 'huge']
# identification_threshold of the results object (a reporting option: it decides which warning is printed and
# must not change any statistic).  'e-5' (explicit 1e-5) is what the original alphabet used; 'default' omits it.
THR_KINDS = {'e-5': 1e-5, 'default': None, 'e-2': 1e-2, 'one': 1.0, 'e+4': 1e4, 'zero': 0.0, 'e-9': 1e-9}


# units of the parameters over many decades (the 'u' kinds).  A coefficient of a variable expressed in very large units
# (an income in raw currency units, 1e9) is tiny and so is its standard error, a coefficient of a variable in very
# small units is huge; t, p, correlations and pairwise tests do not depend on the units, standard errors scale with
# the unit and (co)variances with its square.  'u+E' / 'u-E': EVERY parameter in units of 2^-E / 2^+E (D = 2^E: the
# Hessian and BHHH are multiplied by 4^E, estimates, bootstrap replications and standard errors by 2^-E; a uniform
# power-of-two rescaling is exact in floating point and leaves the condition number alone); 'umix': every parameter
# in its own large unit (D_i = 2^UNIT_MIX[i], ratios up to 2^4: the condition number grows by at most 2^8).
# The ladder has about one rung per decade of the standard error, from 1e-12 to 1e+12 (unit scale: 0.3 .. 3).
UNIT_MIX = [30, 28, 31, 29, 27, 30]
UNIT_LADDER = [13, 17, 20, 23, 27, 30, 33, 37, 40]
UNIT_KINDS_QUICK = ('u+20', 'u+27', 'u+33', 'u+40', 'umix', 'u-20', 'u-30', 'u-40')
UNIT_KINDS = tuple(f'u+{e}' for e in UNIT_LADDER) + ('umix',) + tuple(f'u-{e}' for e in UNIT_LADDER)


def scale_vector(kind, k):
    if kind == 'unit':
        return [1.0] * k
    if kind == 'umix':
        return [2.0 ** e for e in UNIT_MIX[:k]]
    if kind[0] == 'u' and kind[1] in '+-':
        return [2.0 ** int(kind[1:])] * k
    if kind == 'tiny':
        return [2.0 ** -12] * k
    if kind == 'huge':
        return [2.0 ** 10] * k
    if kind == 'mixed':
        return [1.0] * (k - 1) + [2.0 ** -12]
    if kind == 'mixed2':
        return [2.0 ** -10, 1.0, 2.0 ** -14][:k]
    raise ValueError(kind)


def bounds_of(kind, values):
    k = len(values)
    if kind == 'none':
        return [(None, None)] * k
    if kind == 'wide':
        return [(-1000.0, 1000.0)] * k
    if kind == 'active':
        return [(values[0], values[0] + 5.0)] + [(-1000.0, 1000.0)] * (k - 1)
    if kind == 'near':
        b = [(None, None)] * k
        b[0] = (values[0] - 1e-3, None)
        lo = b[k - 1][0]
        b[k - 1] = (lo, values[k - 1] + 5e-7)
        return b
    raise ValueError(kind)


def ref_active(value, bnd):
    lo, up = bnd
    return (lo is not None and abs(value - lo) <= 1e-6) or (up is not None and abs(value - up) <= 1e-6)


def materialise(d, seed):
    """descriptor (small indices / labels) -> concrete raw outcome (plain lists and floats)."""
    k = d['k']
    s8 = seed % 8
    names = NAME_POOLS[seed % 4][k]
    a = A_FAMILY[k][d['h']][1]
    hs = H_SCALE[s8]
    hess = [[-hs * x for x in row] for row in a]
    bk = d['b']
    if bk == 'info':
        bhhh = [[hs * x for x in row] for row in a]
    elif bk == 'scaled':
        bhhh = [[2.0 * hs * x for x in row] for row in a]
    elif bk == 'generic':
        bhhh = [[hs * x for x in row] for row in B_GENERIC[k]]
    else:
        bhhh = [[hs * x for x in row] for row in B_RANK1[k]]
    values = [V_SCALE[s8] * x for x in V_BASE[k][d['v']]]
    dsc = scale_vector(d.get('hsc', 'unit'), k)
    if d.get('hsc', 'unit') != 'unit':
        hess = [[dsc[i] * dsc[j] * hess[i][j] for j in range(k)] for i in range(k)]
        bhhh = [[dsc[i] * dsc[j] * bhhh[i][j] for j in range(k)] for i in range(k)]
        values = [values[i] / dsc[i] for i in range(k)]
    ll = LL_FINAL[s8] + d.get('lls', 0.0)
    null = None if d['null'] == 'absent' else 2.0 * ll - 1.0
    init = {'present': 1.5 * ll - 0.5, 'zero': 0.0, 'equal': ll, 'absent': None}[d['init']]
    boot = None
    if d['boot'] != 'none':
        rows = (BOOT_SETS if k <= 3 else BOOT_WIDE)[seed % 2][d['boot']]
        boot = [[BOOT_SCALE[s8] * float(x) / dsc[i] for i, x in enumerate(r[:k])] for r in rows]
    n, nobs = N_KINDS[d['n']]
    return dict(k=k, names=list(names), values=values, hessian=hess, bhhh=bhhh, loglike=ll, init=init, null=null,
                bootstrap=boot, bounds=bounds_of(d['bd'], values), n=n, nobs=nobs,
                gradient=[0.001 * (i + 1) for i in range(k)], excluded=3, threads=2,
                label=A_FAMILY[k][d['h']][0] + ('' if d.get('hsc', 'unit') == 'unit' else '*' + d['hsc']),
                thr=THR_KINDS[d.get('thr', 'e-5')], f12file=bool(d.get('ff')), subsets=d.get('ss'),
                unit=[1.0 / x for x in dsc] if d.get('hsc', 'unit')[0] == 'u' and d.get('hsc', 'unit') != 'unit' else None)


def outcome_space(tier, seed):
    out = []
    for k in (1, 2, 3):
        hs = range(len(A_FAMILY[k]))
        if tier == 'quick':
            bs, vs, boots, bds = B_KINDS[:3], (0, 1), ('none', 'r3', 'const'), ('none', 'active')
            lls = [(nu, i) for nu in NULL_KINDS for i in ('present', 'zero')]
            ns = (0, 1)
        else:
            bs, vs, boots, bds = B_KINDS, (0, 1, 2), ('none', 'r2', 'r3', 'r5', 'const'), ('none', 'active', 'near')
            lls = [(nu, i) for nu in NULL_KINDS for i in ('present', 'zero', 'absent')]
            ns = (0, 1, 2)
        for h, b, v, boot, bd in itertools.product(hs, bs, vs, boots, bds):
            for (nu, i), n in itertools.product(lls, ns):
                out.append(dict(k=k, h=h, b=b, v=v, boot=boot, bd=bd, null=nu, init=i, n=n))
        # the single-replication bootstrap sample (appended: the original product keeps its order)
        if tier == 'quick':
            bs, vs, bds, lls, ns = ('generic',), (0,), ('none', 'active'), [('present', 'present'), ('absent', 'zero')], (0,)
        else:
            bs, vs, bds = B_KINDS, (0, 1), ('none', 'active', 'near')
            lls, ns = [(nu, i) for nu in NULL_KINDS for i in ('present', 'zero', 'absent')], (0, 1)
        for h, b, v, bd in itertools.product(hs, bs, vs, bds):
            for (nu, i), n in itertools.product(lls, ns):
                out.append(dict(k=k, h=h, b=b, v=v, boot='r1', bd=bd, null=nu, init=i, n=n))
    return out


def scale_space(tier, seed):
    """part 'o' continued: the product (parameter scaling x identification threshold x outcome) minus the
    (unit, 1e-5) slice that outcome_space already holds."""
    if tier == 'quick':
        hscs, thrs = ('unit', 'tiny', 'mixed', 'huge'), ('e-5', 'default', 'one', 'e+4')
        bs, vs, boots, bds = ('info', 'generic'), (0,), ('none', 'r3'), ('none',)
    else:
        hscs, thrs = tuple(HSC_KINDS), tuple(THR_KINDS)
        bs, vs, boots, bds = tuple(B_KINDS), (1,), ('none', 'r3', 'const'), ('none', 'active')
    out = []
    for k in (1, 2, 3):
        for h, hsc, thr, b, v, boot, bd in itertools.product(range(len(A_FAMILY[k])), hscs, thrs, bs, vs, boots, bds):
            if hsc == 'unit' and thr == 'e-5':
                continue
            if k == 1 and hsc == 'mixed':
                continue  # for K = 1 the same matrix as 'tiny'
            out.append(dict(k=k, h=h, b=b, v=v, boot=boot, bd=bd, null='present', init='present', n=0, hsc=hsc, thr=thr))
    return out


def units_space(tier, seed):
    """part 'o' continued: the product (units of the parameters: ladder of powers of two, see UNIT_KINDS) x outcome,
    K = 1..3 with every view, plus a slice with K = 4 (quick) / 4, 5, 6 (thorough) parameters."""
    if tier == 'quick':
        kinds, bs, vs, boots, bds = UNIT_KINDS_QUICK, ('info', 'generic'), (0,), ('none', 'r3'), ('none',)
        wide = [((4,), ('u+30', 'umix'), ('generic',), (0,), ('none', 'r5'), ('none',))]
    else:
        kinds, bs, vs, boots, bds = UNIT_KINDS, tuple(B_KINDS), (0,), ('none', 'r3', 'const'), ('none', 'active')
        wide = [(WIDE_K, ('u+20', 'u+27', 'u+30', 'u+40', 'umix', 'u-30'), ('generic',), (0,), ('none', 'r8'), ('none',))]
    out = []
    for k in (1, 2, 3):
        for h, hsc, b, v, boot, bd in itertools.product(range(len(A_FAMILY[k])), kinds, bs, vs, boots, bds):
            out.append(dict(k=k, h=h, b=b, v=v, boot=boot, bd=bd, null='present', init='present', n=0, hsc=hsc))
    for ks, kinds, bs, vs, boots, bds in wide:
        for k in ks:
            for h, hsc, b, v, boot, bd in itertools.product(range(len(A_FAMILY[k])), kinds, bs, vs, boots, bds):
                out.append(dict(k=k, h=h, b=b, v=v, boot=boot, bd=bd, null='present', init='present', n=0, hsc=hsc, ff=1))
    return out


def wide_space(tier, seed):
    """part 'o' continued: outcomes with K = 4, 5, 6 parameters ('ff': the F12 report is also read back from the
    file write_f12 produces; 'ss': which subsets get_correlation_results is asked for, see subsets_of).
    quick: the full product of a reduced alphabet for K = 4, 5 and a thin slice for K = 6; thorough: the full product
    for K = 4, 5, 6.  Both: a slice (every Hessian, with / without bootstrap) with all 2^K subsets (quick: K = 4, 5)."""
    out = []
    pp = [('present', 'present')]
    if tier == 'quick':
        plan = [((4, 5), ('info', 'generic'), (0, 1), ('none', 'r5'), ('none', 'active'), pp, (0,), None),
                ((6,), ('generic',), (0,), ('none', 'r8'), ('none',), pp, (0,), None),
                ((4, 5), ('generic',), (2,), ('none', 'r8'), ('none',), pp, (1,), 'all'),
                ((4, 5), ('generic',), (1,), ('r1',), ('none',), pp, (0,), None)]
    else:
        plan = [(WIDE_K, tuple(B_KINDS), (0, 1), ('none', 'r3', 'r5', 'r8', 'const'), ('none', 'active', 'near'),
                 [('present', 'present'), ('absent', 'present'), ('present', 'zero')], (0,), None),
                (WIDE_K, ('generic', 'rank1'), (2,), ('none', 'r8'), ('none',), pp, (1,), 'all'),
                (WIDE_K, ('info', 'generic'), (1,), ('r1',), ('none', 'active'), pp, (0,), None)]
    for ks, bs, vs, boots, bds, lls, ns, ss in plan:
        for k in ks:
            for h, b, v, boot, bd in itertools.product(range(len(A_FAMILY[k])), bs, vs, boots, bds):
                for (nu, i), n in itertools.product(lls, ns):
                    d = dict(k=k, h=h, b=b, v=v, boot=boot, bd=bd, null=nu, init=i, n=n, ff=1)
                    if ss:
                        d['ss'] = ss
                    out.append(d)
    return out


# ----------------------------------------------------------------------------------------- injection
def build_results(m):
    """Real RawResults / bioResults from a stub model exposing what RawResults.__init__ reads."""
    import datetime
    import types

    import numpy as np
    import biogeme.results as res
    from biogeme.function_output import BiogemeFunctionOutput

    bounds = dict(zip(m['names'], m['bounds']))
    db = types.SimpleNamespace(name='c08data', get_sample_size=lambda: m['n'],
                               get_number_of_observations=lambda: m['nobs'], typesOfDraws={},
                               excludedData=m['excluded'])
    model = types.SimpleNamespace(
        modelName=m.get('model_name', 'c08model'), user_notes=None,
        id_manager=types.SimpleNamespace(free_betas=types.SimpleNamespace(names=list(m['names']))),
        initLogLike=m['init'], nullLogLike=m['null'], get_bounds_on_beta=lambda name: bounds[name],
        database=db, monte_carlo=False, number_of_draws=0, drawsProcessingTime=datetime.timedelta(0),
        optimizationMessages={}, convergence=True, number_of_threads=m['threads'],
        bootstrap_time=datetime.timedelta(seconds=1))
    fgh = BiogemeFunctionOutput(function=m['loglike'], gradient=np.array(m['gradient'], dtype=float),
                                hessian=np.array(m['hessian'], dtype=float), bhhh=np.array(m['bhhh'], dtype=float))
    boot = None if m['bootstrap'] is None else np.array(m['bootstrap'], dtype=float)
    raw = res.RawResults(model, list(m['values']), fgh, bootstrap=boot)
    if m.get('thr', 1e-5) is None:
        return res.bioResults(raw)  # the constructor's own default (Parameters().identification_threshold)
    return res.bioResults(raw, identification_threshold=m.get('thr', 1e-5))


_REF_CACHE = {}


def reference(m):
    key = repr((m['values'], m['hessian'], m['bhhh'], m['bootstrap']))
    if key not in _REF_CACHE:
        if len(_REF_CACHE) > 4000:
            _REF_CACHE.clear()
        _REF_CACHE[key] = rs.outcome_stats(m['values'], m['hessian'], m['bhhh'], m['bootstrap'])
    fam = _REF_CACHE[key]
    gen = rs.general(m['loglike'], m['init'], m['null'], m['k'], m['n'])
    active = [ref_active(v, b) for v, b in zip(m['values'], m['bounds'])]
    return dict(fam=fam, gen=gen, active=active, gradnorm=math.sqrt(sum(g * g for g in m['gradient'])))


# ----------------------------------------------------------------------------------------- comparison
FAMS = ('classical', 'robust', 'bootstrap')
SANDWICH_MAX = 1e6  # largest accepted cancellation ratio of the robust sandwich for rescaled outcomes


def isnum(x):
    return isinstance(x, (int, float)) and not isinstance(x, bool)


def close(obs, ref, tol_abs=ATOL, tol_rel=RTOL):
    try:
        o = float(obs)
    except (TypeError, ValueError):
        return False
    if math.isnan(o) or math.isnan(ref):
        return False
    if math.isinf(o) or math.isinf(ref):
        return o == ref
    return abs(o - ref) <= tol_abs + tol_rel * max(abs(o), abs(ref))


def p_tol(t):
    """absolute tolerance of a p-value whose t carries a 1e-10 relative error."""
    return ATOL + 2.0 * rs.phi_pdf(t) * abs(t) * RTOL


def fmt_variants(ref, spec):
    out = set()
    for e in (0.0, 1e-9, -1e-9):
        try:
            out.add(format(ref * (1.0 + e) if isinstance(ref, float) else ref, spec))
        except (TypeError, ValueError):
            pass
    return out


SKIP_COUNTERS = {'ill-conditioned': 'cells_skipped_ill_conditioned_pair_variance',
                 'fragile-zero': 'cells_skipped_fragile_sign_of_zero_variance'}


def fragile_zero_variances(r, m, ref):
    """(family, i) whose variance is exactly zero by the defining formula while the library's own floating-point
    matrix holds a negative rounding-noise figure there (-1e-34 ...): the sign of a computed zero is arbitrary, the
    square root of that diagonal entry is not defined (the library then reports the largest float instead of ~0) -
    a fragile branch: the standard-error cell is excluded and counted; the matrix entry itself is still compared."""
    out = set()
    for fam, pre in (('classical', ''), ('robust', 'robust_'), ('bootstrap', 'bootstrap_')):
        f = ref['fam'][fam]
        mat = getattr(r.data, pre + 'varCovar', None)
        if f is None or mat is None or f.get('undefined'):
            continue
        scale = cov_scale(m, f)
        for i in range(m['k']):
            if isnum(f['se'][i]) and f['se'][i] == 0.0 and -ATOL * scale <= mat[i, i] < 0:
                out.add((fam, i))
    return out


def se_ref(ck, fam, i):
    return 'fragile-zero' if (fam, i) in ck.fragile else ck.ref['fam'][fam]['se'][i]


class Checker:
    """Compares cells with the reference; builds finding keys '<ID>|<view>[<label>]|holds:<diagnosis>'."""

    def __init__(self, rec, case, m, ref, tag):
        self.rec, self.case, self.m, self.ref, self.tag = rec, case, m, ref, tag
        self.compared = 0
        self.skipped = 0
        self.bad = 0
        self.fragile = frozenset()

    # named reference quantities used to diagnose what a wrong cell actually holds
    def named_param(self, i):
        out = {'estimate': self.m['values'][i]}
        for f in FAMS:
            fam = self.ref['fam'][f]
            if fam is None:
                continue
            out[f'{f} std err'] = fam['se'][i]
            out[f'{f} t'] = fam['t'][i]
            out[f'{f} p'] = fam['p'][i]
        return out

    def named_pair(self, i, j):
        out = {}
        for f in FAMS:
            fam = self.ref['fam'][f]
            if fam is None:
                continue
            out[f'{f} covariance'] = fam['cov'][i][j]
            out[f'{f} correlation'] = fam['corr'][i][j]
            out[f'{f} pair t'] = fam['pair_t'][i][j]
            out[f'{f} pair p'] = fam['pair_p'][i][j]
            out[f'{f} variance i'] = fam['cov'][i][i]
            out[f'{f} variance j'] = fam['cov'][j][j]
        return out

    def named_general(self):
        g = self.ref['gen']
        out = {k: v for k, v in g.items()}
        out.update(K=self.m['k'], sample_size=self.m['n'], observations=self.m['nobs'], final=self.m['loglike'],
                   init=self.m['init'], null=self.m['null'], excluded=self.m['excluded'],
                   free=self.m['k'] - sum(self.ref['active']), threads=self.m['threads'])
        return out

    def diagnose(self, obs, named, expected_name, spec=None):
        try:
            o = float(obs)
        except (TypeError, ValueError):
            return 'non-numeric'

        floor = 1e-9 * min(1.0, unit_floor(self.m))  # 1e-9 in the smallest unit of the outcome (unit scale: 1e-9)

        def same(v, name):
            if spec is not None:  # a formatted figure: equal when it prints the same
                return (abs(v) > floor or name == 'estimate') and format(o, spec) in fmt_variants(float(v), spec)
            return (abs(v) > floor or name == 'estimate') and close(o, float(v), floor, 1e-9)
        # same kind of quantity in another family first (robust, classical, bootstrap), then anything else;
        # coincidences with 0 are not a diagnosis
        kind = expected_name.split(' ', 1)[1] if ' ' in expected_name else expected_name
        order = [f'{f} {kind}' for f in ('robust', 'classical', 'bootstrap')]
        order += [n for n in named if n not in order]
        for name in order:
            v = named.get(name)
            if name != expected_name and isnum(v) and same(float(v), name):
                return name
        return 'other'

    def fail(self, view, label, where, obs, ref, named, expected_name, note='', spec=None):
        self.bad += 1
        diag = self.diagnose(obs, named, expected_name, spec) if named is not None else 'n/a'
        self.rec.violation(
            f'{ID}|{view}[{label}]|holds:{diag}',
            f'{view}: cell {where} labelled "{label}" holds {obs!r} but {expected_name} by its defining formula is '
            f'{ref!r} (the cell equals: {diag}){note} [{self.tag}]',
            self.case, expected=ref, observed=obs if isnum(obs) else repr(obs))

    def num(self, view, label, where, obs, ref, named, expected_name, tol_abs=ATOL):
        """ref: float | None (must be absent/None) | 'undefined' (skipped)."""
        if isinstance(ref, str):
            self.skipped += 1
            self.rec.count(SKIP_COUNTERS.get(ref, 'cells_skipped_formula_undefined'))
            return
        if ref is None:
            self.compared += 1
            if obs is not None:
                self.fail(view, label, where, obs, None, named, expected_name)
            return
        self.compared += 1
        if not close(obs, float(ref), tol_abs):
            self.fail(view, label, where, obs, ref, named, expected_name)

    def text(self, view, label, where, txt, ref, spec, named, expected_name):
        if isinstance(ref, str) or ref is None:
            self.skipped += 1
            self.rec.count(SKIP_COUNTERS.get(ref, 'cells_skipped_formula_undefined'))
            return
        self.compared += 1
        if txt.strip() not in fmt_variants(ref, spec):
            try:
                obs = float(txt)
            except ValueError:
                obs = txt
            self.fail(view, label, where, obs, format(ref, spec), named, expected_name, note=f' (format {spec!r})',
                      spec=spec or None)

    def structure(self, view, what, expected, observed):
        self.compared += 1
        if expected != observed:
            self.bad += 1
            self.rec.violation(f'{ID}|{view}|structure:{what}',
                               f'{view}: {what}: expected {expected!r}, observed {observed!r} [{self.tag}]',
                               self.case, expected=expected, observed=observed)


# quantity named by each column label: (family, field)
PARAM_COLS = {
    'Std err': ('classical', 'se'), 't-test': ('classical', 't'), 'p-value': ('classical', 'p'),
    'Rob. Std err': ('robust', 'se'), 'Rob. t-test': ('robust', 't'), 'Rob. p-value': ('robust', 'p'),
    'Bootstrap t-test': ('bootstrap', 't'), 'Bootstrap p-value': ('bootstrap', 'p'),
}
PAIR_COLS = {
    'Covariance': ('classical', 'cov'), 'Correlation': ('classical', 'corr'), 't-test': ('classical', 'pair_t'),
    'p-value': ('classical', 'pair_p'),
    'Rob. cov.': ('robust', 'cov'), 'Rob. corr.': ('robust', 'corr'), 'Rob. t-test': ('robust', 'pair_t'),
    'Rob. p-value': ('robust', 'pair_p'),
    'Boot. cov.': ('bootstrap', 'cov'), 'Boot. corr.': ('bootstrap', 'corr'), 'Boot. t-test': ('bootstrap', 'pair_t'),
    'Boot. p-value': ('bootstrap', 'pair_p'),
}
FIELD_NAME = {'se': 'std err', 't': 't', 'p': 'p', 'cov': 'covariance', 'corr': 'correlation', 'pair_t': 'pair t',
              'pair_p': 'pair p'}
GENERAL_LABELS = {
    # label: (reference key, format)
    'Number of estimated parameters': ('K', ''), 'Number of free parameters': ('free', ''),
    'Sample size': ('sample_size', ''), 'Observations': ('observations', ''),
    'Excluded observations': ('excluded', ''), 'Null log likelihood': ('null', '.7g'),
    'Init log likelihood': ('init', '.7g'), 'Final log likelihood': ('final', '.7g'),
    'Likelihood ratio test for the null model': ('lr_null', '.7g'),
    'Rho-square for the null model': ('rho_null', '.3g'), 'Rho-square-bar for the null model': ('rhobar_null', '.3g'),
    'Likelihood ratio test for the init. model': ('lr_init', '.7g'),
    'Rho-square for the init. model': ('rho_init', '.3g'), 'Rho-square-bar for the init. model': ('rhobar_init', '.3g'),
    'Akaike Information Criterion': ('aic', '.7g'), 'Bayesian Information Criterion': ('bic', '.7g'),
    'Final gradient norm': ('gradnorm', '.4E'), 'Nbr of threads': ('threads', ''),
}


# ----------------------------------------------------------------------------------------- views of one outcome
def expected_general_labels(m, ref):
    labs = ['Number of estimated parameters']
    if sum(ref['active']):
        labs.append('Number of free parameters')
    labs.append('Sample size')
    if m['n'] != m['nobs']:
        labs.append('Observations')
    labs.append('Excluded observations')
    if m['null'] is not None:
        labs.append('Null log likelihood')
    labs += ['Init log likelihood', 'Final log likelihood']
    if m['null'] is not None:
        labs += ['Likelihood ratio test for the null model', 'Rho-square for the null model',
                 'Rho-square-bar for the null model']
    labs += ['Likelihood ratio test for the init. model', 'Rho-square for the init. model',
             'Rho-square-bar for the init. model', 'Akaike Information Criterion', 'Bayesian Information Criterion',
             'Final gradient norm']
    if m['bootstrap'] is not None:
        labs.append('Bootstrapping time')
    labs.append('Nbr of threads')
    return labs


def general_ref(ck, key):
    if key == 'gradnorm':
        return ck.ref['gradnorm']
    return ck.named_general()[key]


def param_ref(ck, i, fam, field):
    f = ck.ref['fam'][fam]
    if f is not None and field == 'se':
        return se_ref(ck, fam, i)
    return None if f is None else f[field][i]


def unit_floor(m):
    """the smallest unit of a parameter of the outcome (1 for every outcome outside the 'u' kinds of parameter units)"""
    return min(m.get('unit') or [1.0])


def cov_scale(m, f):
    """the magnitude to which the absolute tolerance of a covariance entry is relative: the largest entry of the
    matrix, but not less than the square of the smallest unit (outside the 'u' kinds: not less than 1, as ever).
    An outcome in units of 2^-E is the unit-scale outcome with every covariance multiplied by 4^-E exactly (the
    rescaling is a power of two), so this is the tolerance of the unit-scale outcome in the new units."""
    return max(unit_floor(m) ** 2, max(abs(x) for row in f['cov'] for x in row))


def param_tol(ck, i, fam, field):
    if field == 'p':
        t = ck.ref['fam'][fam]['t'][i]
        return p_tol(t) if isnum(t) else ATOL
    if field == 'se':  # the absolute part of the tolerance is taken in the unit of the parameter ('u' kinds)
        u = ck.m.get('unit')
        return ATOL * u[i] if u else ATOL
    return ATOL


def pair_tol(ck, i, j, fam, field):
    f = ck.ref['fam'][fam]
    if field == 'pair_p':
        t = f['pair_t'][i][j]
        return p_tol(t) if isnum(t) else ATOL
    if field == 'cov' and not f.get('undefined'):
        return ATOL * cov_scale(ck.m, f)
    return ATOL


def view_data(r, ck):
    """the statistics stored on r.data by _calculate_stats"""
    d, m, k = r.data, ck.m, ck.m['k']
    g = ck.named_general()
    for attr, key in (('likelihoodRatioTest', 'lr_init'), ('likelihoodRatioTestNull', 'lr_null'),
                      ('rhoSquare', 'rho_init'), ('rhoSquareNull', 'rho_null'), ('rhoBarSquare', 'rhobar_init'),
                      ('rhoBarSquareNull', 'rhobar_null'), ('akaike', 'aic'), ('bayesian', 'bic')):
        ck.num('data', attr, attr, getattr(d, attr), g[key], g, key)
    for fam, pre in (('classical', ''), ('robust', 'robust_'), ('bootstrap', 'bootstrap_')):
        f = ck.ref['fam'][fam]
        if f is None:
            continue
        mat = getattr(d, pre + 'varCovar')
        cor = getattr(d, pre + 'correlation')
        for i in range(k):
            named = ck.named_param(i)
            b = d.betas[i]
            for attr, field in (('stdErr', 'se'), ('tTest', 't'), ('pValue', 'p')):
                ck.num('data', f'betas.{pre}{attr}', f'{m["names"][i]}', getattr(b, pre + attr),
                       se_ref(ck, fam, i) if field == 'se' else f[field][i], named,
                       f'{fam} {FIELD_NAME[field]}', param_tol(ck, i, fam, field))
            for j in range(k):
                np_ = ck.named_pair(i, j)
                ck.num('data', f'{pre}varCovar', f'[{i},{j}]', mat[i, j], f['cov'][i][j], np_, f'{fam} covariance',
                       pair_tol(ck, i, j, fam, 'cov'))
                ck.num('data', f'{pre}correlation', f'[{i},{j}]', cor[i, j], f['corr'][i][j], np_, f'{fam} correlation')
    exp_keys = [(m['names'][i], m['names'][j]) for i in range(k) for j in range(i)]
    ck.structure('data.secondOrderTable', 'keys', exp_keys, [tuple(x) for x in d.secondOrderTable.keys()])
    order = [(f, fld) for f in FAMS for fld in ('cov', 'corr', 'pair_t', 'pair_p')]
    for i in range(k):
        for j in range(i):
            v = d.secondOrderTable.get((m['names'][i], m['names'][j]))
            if v is None:
                continue
            nfam = 3 if m['bootstrap'] is not None else 2
            ck.structure('data.secondOrderTable', 'row length', 4 * nfam, len(v))
            np_ = ck.named_pair(i, j)
            for pos, (fam, fld) in enumerate(order[:len(v)]):
                if ck.ref['fam'][fam] is None:
                    continue
                ck.num('data.secondOrderTable', f'#{pos}:{fam} {FIELD_NAME[fld]}', f'({i},{j})', v[pos],
                       ck.ref['fam'][fam][fld][i][j], np_, f'{fam} {FIELD_NAME[fld]}', pair_tol(ck, i, j, fam, fld))


def view_estimated_parameters(r, ck, only_robust):
    m = ck.m
    view = 'get_estimated_parameters'
    t = r.get_estimated_parameters(only_robust=only_robust)
    any_active = any(ck.ref['active'])
    cols = ['Value'] + (['Active bound'] if any_active else [])
    if not only_robust:
        cols += ['Std err', 't-test', 'p-value']
    cols += ['Rob. Std err', 'Rob. t-test', 'Rob. p-value']
    bootcol = None
    if m['bootstrap'] is not None and not only_robust:
        bootcol = f'Bootstrap[{len(m["bootstrap"])}] Std err'
        cols += [bootcol, 'Bootstrap t-test', 'Bootstrap p-value']
    ck.structure(view, f'columns(only_robust={only_robust})', cols, list(t.columns))
    ck.structure(view, 'rows', m['names'], list(t.index))
    for i, name in enumerate(m['names']):
        if name not in t.index:
            continue
        named = ck.named_param(i)
        for c in t.columns:
            obs = t.loc[name, c]
            lab = 'Bootstrap[B] Std err' if c == bootcol else c
            if c == 'Value':
                ck.num(view, lab, name, obs, m['values'][i], named, 'estimate')
            elif c == 'Active bound':
                ck.num(view, lab, name, obs, 1.0 if ck.ref['active'][i] else 0.0, None, 'active-bound flag')
            elif c == bootcol:
                ck.num(view, lab, name, obs, param_ref(ck, i, 'bootstrap', 'se'), named, 'bootstrap std err',
                       param_tol(ck, i, 'bootstrap', 'se'))
            elif c in PARAM_COLS:
                fam, fld = PARAM_COLS[c]
                ck.num(view, lab, name, obs, param_ref(ck, i, fam, fld), named, f'{fam} {FIELD_NAME[fld]}',
                       param_tol(ck, i, fam, fld))


def view_correlation(r, ck, subset):
    m, k = ck.m, ck.m['k']
    view = 'get_correlation_results'
    t = r.get_correlation_results(subset=subset)
    cols = list(PAIR_COLS)[:8] + (list(PAIR_COLS)[8:] if m['bootstrap'] is not None else [])
    ck.structure(view, 'columns', cols, list(t.columns))
    rows = {}
    for i in range(k):
        for j in range(i):
            if subset is None or (m['names'][i] in subset and m['names'][j] in subset):
                rows[f'{m["names"][i]}-{m["names"][j]}'] = (i, j)
    ck.structure(view, f'rows(subset of size {None if subset is None else len(subset)})', list(rows), list(t.index))
    for rname, (i, j) in rows.items():
        if rname not in t.index:
            continue
        np_ = ck.named_pair(i, j)
        for c in t.columns:
            if c not in PAIR_COLS:
                continue
            fam, fld = PAIR_COLS[c]
            if ck.ref['fam'][fam] is None:
                continue
            ck.num(view, c, rname, t.loc[rname, c], ck.ref['fam'][fam][fld][i][j], np_, f'{fam} {FIELD_NAME[fld]}',
                   pair_tol(ck, i, j, fam, fld))


def view_general(r, ck):
    view = 'get_general_statistics'
    d = r.get_general_statistics()
    ck.structure(view, 'labels', expected_general_labels(ck.m, ck.ref), list(d.keys()))
    named = ck.named_general()
    for lab, (value, fmt) in d.items():
        if lab not in GENERAL_LABELS:
            continue
        key, spec = GENERAL_LABELS[lab]
        ck.structure(view, f'format of {lab}', spec, fmt)
        ck.num(view, lab, lab, value, general_ref(ck, key), named, key)


def view_print_general(r, ck):
    view = 'print_general_statistics'
    m = ck.m
    if m['init'] is None or m['init'] == 0 or (m['null'] is not None and m['null'] == 0):
        # a None statistic cannot be formatted: the text views are defined only when every formula is
        try:
            r.print_general_statistics()
            ck.rec.count('text_view_survived_undefined_statistic')
        except TypeError:
            ck.rec.count('text_view_raised_on_undefined_statistic')
        return
    txt = r.print_general_statistics()
    lines = [ln for ln in txt.split('\n') if ln]
    labs = [ln.split(':\t')[0] for ln in lines]
    ck.structure(view, 'labels', expected_general_labels(m, ck.ref), labs)
    named = ck.named_general()
    for ln in lines:
        lab, _, val = ln.partition(':\t')
        if lab in GENERAL_LABELS:
            key, spec = GENERAL_LABELS[lab]
            ck.text(view, lab, lab, val, general_ref(ck, key), spec, named, key)


def view_varcovar_frames(r, ck):
    m, k = ck.m, ck.m['k']
    for fam, meth in (('classical', 'get_var_covar'), ('robust', 'get_robust_var_covar'),
                      ('bootstrap', 'get_bootstrap_var_covar')):
        df = getattr(r, meth)()
        f = ck.ref['fam'][fam]
        if f is None:
            ck.structure(meth, 'None without bootstrap', True, df is None)
            continue
        ck.structure(meth, 'index', m['names'], list(df.index))
        ck.structure(meth, 'columns', m['names'], list(df.columns))
        for i in range(k):
            for j in range(k):
                ck.num(meth, 'entry', f'[{m["names"][i]},{m["names"][j]}]', df.at[m['names'][i], m['names'][j]],
                       f['cov'][i][j], ck.named_pair(i, j), f'{fam} covariance', pair_tol(ck, i, j, fam, 'cov'))


def subsets_of(names, mode='all'):
    """subsets given to get_correlation_results.  'all': no subset, every non-empty subset, one with an unknown name;
    'few' (default of the outcomes with K >= 4, where 2^K calls per outcome dominate the cost): no subset, the full
    list, every leave-one-out list, one singleton, one with an unknown name."""
    out = [None]
    if mode == 'few':
        out.append(list(names))
        out += [[x for x in names if x != drop] for drop in names]
        out.append([names[1]])
    else:
        for n in range(1, len(names) + 1):
            for c in itertools.combinations(names, n):
                out.append(list(c))
    if len(names) >= 2:
        out.append([names[-1], 'no_such_parameter', names[0]])
    return out


def outcome_class(m):
    return (f'K={m["k"]},hessian={m["label"]},bootstrap={"no" if m["bootstrap"] is None else len(m["bootstrap"])}')


def check_outcome(d, seed, rec, sample=False, views=None):
    m = materialise(d, seed)
    case = dict(part='o', desc=d, seed=seed)
    tag = 'outcome ' + ','.join(f'{k}={v}' for k, v in d.items()) + f',seed={seed}'
    okey = tuple(sorted(d.items()))
    if d.get('hsc', 'unit') != 'unit' and rs.sandwich_cancellation(m['hessian'], m['bhhh']) > SANDWICH_MAX:
        # an entry of V B V is a (near-)exact zero made of large terms: with the variances rescaled by 2^±24 the
        # rounding noise in it is no longer below the absolute tolerance - ill-conditioned, excluded and counted
        rec.count('skipped_ill_conditioned_sandwich')
        rec.case(None, ('ill-conditioned-sandwich', okey), outcome='skipped-ill-conditioned-sandwich')
        return
    ref = reference(m)
    try:
        r = build_results(m)
    except Exception as e:  # every enumerated outcome is inside the quantifier: construction must succeed
        rec.case(('o', okey, 'construct'), ('raise', type(e).__name__), outcome=('construct-raises', type(e).__name__))
        rec.violation(f'{ID}|bioResults-raises:{type(e).__name__}|K={m["k"]},bootstrap={"no" if m["bootstrap"] is None else "yes"}',
                      f'bioResults(RawResults(...)) raised {type(e).__name__}: {e} for the raw outcome {outcome_class(m)} '
                      f'(values={m["values"]}, H={m["hessian"]}, bootstrap={m["bootstrap"]}) [{tag}]',
                      case, expected='statistics computed', observed=f'{type(e).__name__}: {e}')
        return
    if sample:
        rec.sample(dict(part='o', desc=d, seed=seed, names=m['names'], values=m['values'], hessian=m['hessian'],
                        bhhh=m['bhhh'], bootstrap=m['bootstrap'], loglike=m['loglike'], init=m['init'], null=m['null']))
    run_views(r, m, ref, case, tag, ('o', okey), rec, views)


def run_views(r, m, ref, case, tag, okey, rec, views=None):
    plan = [('data', lambda ck: view_data(r, ck)),
            ('estimated_parameters:robust', lambda ck: view_estimated_parameters(r, ck, True)),
            ('estimated_parameters:all', lambda ck: view_estimated_parameters(r, ck, False)),
            ('general', lambda ck: view_general(r, ck)),
            ('print_general', lambda ck: view_print_general(r, ck)),
            ('varcovar_frames', lambda ck: view_varcovar_frames(r, ck))]
    for si, sub in enumerate(subsets_of(m['names'], m.get('subsets') or ('all' if m['k'] <= 3 else 'few'))):
        plan.append((f'correlation:subset#{si}', lambda ck, sub=sub: view_correlation(r, ck, sub)))
    plan += text_views(r, m)
    fragile = fragile_zero_variances(r, m, ref)
    for vname, fn in plan:
        if views and vname not in views:
            continue
        ck = Checker(rec, case, m, ref, tag)
        ck.fragile = fragile
        try:
            fn(ck)
            raised = None
        except Exception as e:
            raised = type(e).__name__
            import traceback
            tb = traceback.format_exc().strip().split('\n')
            rec.violation(f'{ID}|view-raises:{vname.split("#")[0]}:{raised}|K={m["k"]},bootstrap={"no" if m["bootstrap"] is None else "yes"}',
                          f'view {vname} raised {raised}: {e} ({tb[-3].strip() if len(tb) > 2 else ""}) for {outcome_class(m)} [{tag}]',
                          case, expected='a table', observed=f'{raised}: {e}')
        rec.count('cells_compared', ck.compared)
        rec.case(okey + (vname,) if ck.compared else None,
                 (vname, ck.compared, ck.skipped, ck.bad, raised),
                 outcome=(vname.split('#')[0], ck.skipped > 0, ck.bad > 0, raised, m['label'], m['bootstrap'] is None))


def text_views(r, m):
    return []


# ----------------------------------------------------------------------------------------- tasks
CHUNK = 24
CHUNK_WIDE = 8


def tasks(tier, seed):
    t = []
    space = outcome_space(tier, seed)
    for i in range(0, len(space), CHUNK):
        t.append(dict(part='o', seed=seed, outcomes=space[i:i + CHUNK]))
    space = scale_space(tier, seed)
    for i in range(0, len(space), CHUNK):
        t.append(dict(part='o', seed=seed, outcomes=space[i:i + CHUNK]))
    space = wide_space(tier, seed)
    for i in range(0, len(space), CHUNK_WIDE):
        t.append(dict(part='o', seed=seed, outcomes=space[i:i + CHUNK_WIDE]))
    space = units_space(tier, seed)
    narrow = [d for d in space if d['k'] <= 3]
    for i in range(0, len(narrow), CHUNK):
        t.append(dict(part='o', seed=seed, outcomes=narrow[i:i + CHUNK]))
    wide = [d for d in space if d['k'] > 3]
    for i in range(0, len(wide), CHUNK_WIDE):
        t.append(dict(part='o', seed=seed, outcomes=wide[i:i + CHUNK_WIDE]))
    t += extra_tasks(tier, seed)
    return t


def extra_tasks(tier, seed):
    return []


def run_task(task):
    rec = Rec()
    part = task['part']
    if part == 'o':
        for n, d in enumerate(task['outcomes']):
            check_outcome(d, task['seed'], rec, sample=(n == 0))
    else:
        run_extra(task, rec)
    return rec.result()


def run_extra(task, rec):
    raise ValueError(task['part'])


def replay(case):
    rec = Rec()
    if case['part'] == 'o':
        check_outcome(case['desc'], case['seed'], rec)
    else:
        run_extra(dict(case, replay=True), rec)
    return rec.violations


# ----------------------------------------------------------------------------------------- part c: compiled tables
POOL = [
    dict(k=1, h=0, b='generic', v=0, boot='none', bd='none', null='present', init='present', n=0, lls=0.0),
    dict(k=2, h=1, b='generic', v=0, boot='r3', bd='none', null='present', init='present', n=2, lls=-1.5),
    dict(k=3, h=2, b='generic', v=0, boot='none', bd='active', null='absent', init='present', n=1, lls=-3.25),
    dict(k=2, h=3, b='scaled', v=1, boot='none', bd='none', null='present', init='present', n=0, lls=2.0),
    dict(k=3, h=5, b='generic', v=2, boot='r5', bd='wide', null='present', init='present', n=2, lls=0.5),
    dict(k=1, h=1, b='scaled', v=1, boot='none', bd='near', null='absent', init='equal', n=1, lls=-0.75),
    dict(k=3, h=1, b='rank1', v=1, boot='r4', bd='none', null='present', init='present', n=0, lls=1.25),
    # models whose parameters are in very large units (tiny estimates and standard errors, ordinary t), see UNIT_KINDS
    dict(k=2, h=1, b='generic', v=0, boot='none', bd='none', null='present', init='present', n=0, lls=-2.5, hsc='u+30'),
    dict(k=3, h=2, b='generic', v=1, boot='r3', bd='none', null='present', init='present', n=2, lls=0.75, hsc='umix'),
]
POOL_UNITS = (7, 8)
STATS_DEFAULT = ('Number of estimated parameters', 'Sample size', 'Final log likelihood',
                 'Akaike Information Criterion', 'Bayesian Information Criterion')
STATS_ALT = ('Rho-square-bar for the init. model', 'Likelihood ratio test for the init. model',
             'Excluded observations', 'Rho-square for the init. model', 'Init log likelihood')
# the rows of the null model and the remaining unconditional rows (the initial and the null log likelihood of every
# pool model differ, so a row of one holding the figure of the other is seen) ...
STATS_NULL = ('Null log likelihood', 'Likelihood ratio test for the null model', 'Rho-square for the null model',
              'Rho-square-bar for the null model', 'Rho-square for the init. model', 'Init log likelihood',
              'Final gradient norm', 'Nbr of threads')
# ... and the rows a model has only conditionally (a bound is active / observations differ from the sample size)
STATS_FREE = ('Number of free parameters', 'Number of estimated parameters', 'Bayesian Information Criterion')
STATS_OBS = ('Observations', 'Sample size', 'Excluded observations')
STATS_KINDS = {'default': STATS_DEFAULT, 'alt': STATS_ALT, 'null': STATS_NULL, 'free': STATS_FREE, 'obs': STATS_OBS}
FLAG_NAMES = ('include_parameter_estimates', 'include_robust_stderr', 'include_robust_ttest', 'formatted',
              'use_short_names')


def compile_tasks(tier, seed):
    n = 5 if tier == 'quick' else 7
    stats = ['default'] if tier == 'quick' else ['default', 'alt']
    t = []
    for ln in (1, 2, 3):
        for tup in itertools.permutations(range(n), ln):
            t.append(dict(part='c', seed=seed, tuple=list(tup), stats=stats))
    # the three further lists of statistic rows x (formatted, short names) - the statistic rows do not depend on the three
    # parameter switches: quick on the tuples of one and two models, thorough on all tuples (pool of 7)
    for ln in ((1, 2) if tier == 'quick' else (1, 2, 3)):
        for tup in itertools.permutations(range(7), ln):
            t.append(dict(part='c', seed=seed, tuple=list(tup), stats=['null', 'free', 'obs'], flagset='formatted-x-short'))
    # tables with a model in very large units: every ordered tuple of 1..2 (thorough: 1..3) models from a sub-pool that
    # holds at least one of them x all 2^5 flags
    sub = (1,) + POOL_UNITS if tier == 'quick' else (0, 1, 4) + POOL_UNITS
    for ln in ((1, 2) if tier == 'quick' else (1, 2, 3)):
        for tup in itertools.permutations(sub, ln):
            if set(tup) & set(POOL_UNITS):
                t.append(dict(part='c', seed=seed, tuple=list(tup), stats=stats))
    return t


def check_compile(tup, seed, flags, stats_kind, rec, built=None, kinds=None, files=None, form='dict'):
    """kinds (part 'p'): how each entry of the dict is given - 'obj' a results object (part 'c': all of them),
    'file' the name of its pickle file, the others a name behind which no results can be read.  form 'directory':
    the same files found by compile_results_in_directory in the working directory."""
    import biogeme.results as res

    built = built if built is not None else {}
    models = []
    for idx in tup:
        if idx not in built:
            m = materialise(POOL[idx], seed)
            m['model_name'] = f'pool{idx}'
            built[idx] = (m, reference(m), build_results(m))
        models.append((f'spec {idx}: pool{idx}', idx) + built[idx])
    kw = dict(zip(FLAG_NAMES, [bool(f) for f in flags]))
    statistics = STATS_KINDS[stats_kind]
    case = dict(part='c', seed=seed, tuple=list(tup), flags=list(flags), stats=stats_kind)
    tag = f'compile tuple={list(tup)} {kw} stats={stats_kind} seed={seed}'
    view = 'compile_estimation_results'
    readable = [True] * len(models)
    if kinds is not None:
        case.update(part='p', kinds=list(kinds), form=form)
        tag = f'compile tuple={list(tup)} entries={list(kinds)} form={form} {kw} stats={stats_kind} seed={seed}'
        readable = [kd in READABLE_KINDS for kd in kinds]
    vkey = view + ('(formatted)' if kw['formatted'] else '(unformatted)')
    ck0 = Checker(rec, case, models[0][2], models[0][3], tag)
    ekinds = list(kinds) if kinds is not None else None  # kinds in column order
    if form == 'directory':
        view = 'compile_results_in_directory'
        vkey = view + ('(formatted)' if kw['formatted'] else '(unformatted)')
        got = files.compile_directory(res, [(kd, idx, r) for kd, (_, idx, _, _, r) in zip(kinds, models)], statistics, kw)
        if got is None:
            ck0.structure(view, 'a table is returned when the directory holds .pickle files', 'table', None)
            rec.case(('p', form, tuple(tup), tuple(kinds), tuple(flags), stats_kind, seed), (list(tup), list(kinds), 'none'),
                     outcome=('compile-directory', 'no table'))
            return
        df, by_file = got
        # columns are the file names, in the order the directory lists them: follow that order
        order = sorted(range(len(models)), key=lambda i: (list(df.columns).index(by_file[i]) if by_file[i] in df.columns else -1))
        ck0.structure(view, 'columns (as a set)', sorted(by_file), sorted(df.columns))
        models = [(by_file[i],) + tuple(models[i][1:]) for i in order]
        readable = [readable[i] for i in order]
        ekinds = [kinds[i] for i in order]
        cols = [name for name, *_r in models]
    else:
        entries = {name: (r if kinds is None or kd == 'obj' else files.path(kd, idx, r))
                   for kd, (name, idx, _, _, r) in zip(kinds or ['obj'] * len(models), models)}
        # a requested row that a (readable) model does not have - no null log likelihood, no active bound, as many
        # observations as individuals: the call may refuse (KeyError naming the row); if it answers, that cell is empty
        lacking = [(name, lab) for (name, _, m, ref, _), ok in zip(models, readable) if ok
                   for lab in statistics if lab not in expected_general_labels(m, ref)]
        try:
            df, conf = res.compile_estimation_results(entries, statistics=statistics, **kw)
        except KeyError as e:
            if not lacking or e.args[0] not in [lab for _, lab in lacking]:
                raise
            rec.count('compile_refused_row_the_model_does_not_have')
            rec.case(None, (list(tup), list(flags), stats_kind, 'refused', str(e.args[0])),
                     outcome=('compile-refused-unavailable-row', str(e.args[0])))
            return
        cols = [f'Model_{i:06d}' if kw['use_short_names'] else name for i, (name, *_rest) in enumerate(models)]
        ck0.structure(view, 'columns', cols, list(df.columns))
        ck0.structure(view, 'configurations', {c: name for c, (name, *_r) in zip(cols, models)}, dict(conf))
    # expected row labels
    se_f, tt_f = kw['include_robust_stderr'], kw['include_robust_ttest']
    exp_rows = list(statistics) if any(readable) else []
    prow = {}
    if kw['include_parameter_estimates']:
        for (_, _, m, _, _), ok in zip(models, readable):
            if not ok:
                continue  # nothing can be read behind this entry: it contributes no row
            for nm in m['names']:
                if kw['formatted']:
                    labs = [(f'{nm}{" (std)" if se_f else ""}{" (t-test)" if tt_f else ""}', 'formatted')]
                else:
                    labs = [(nm, 'value')] + ([(f'{nm} (std)', 'se')] if se_f else []) + \
                           ([(f'{nm} (ttest)', 't')] if tt_f else [])
                for lab, what in labs:
                    if lab not in prow:
                        prow[lab] = (nm, what)
                        exp_rows.append(lab)
    ck0.structure(view, 'row labels', sorted(exp_rows), sorted(map(str, df.index)))
    compared = ck0.compared
    bad = ck0.bad
    skipped = 0
    for pos, (col, (name, idx, m, ref, r)) in enumerate(zip(cols, models)):
        if col not in df.columns:
            continue
        ck = Checker(rec, case, m, ref, tag + f' column={col}')
        if not readable[pos]:
            # no results exist for this model: a figure in its column is not the quantity of any row label
            filled = [str(lab) for lab in df.index if not (isinstance(df.loc[lab, col], str) and df.loc[lab, col] == '')]
            ck.compared += 1
            if filled:
                ck.bad += 1
                others = [ekinds[q] for q in range(len(models)) if q != pos and readable[q]]
                before = any(readable[:pos])
                rec.violation(
                    f'{ID}|{view}|column-of-unreadable-entry-holds-figures:entry={ekinds[pos]}:'
                    f'{"after" if before else "before"}-a-readable-entry',
                    f'{view}: the entry of column {col!r} is a results file that cannot be read ({ekinds[pos]}), but its '
                    f'column holds figures in the rows {filled[:6]}{"..." if len(filled) > 6 else ""} (e.g. '
                    f'{df.loc[filled[0], col]!r}); readable entries of the call: {others} [{tag}]',
                    case, expected='empty column', observed={lab: repr(df.loc[lab, col]) for lab in filled[:6]})
            compared += ck.compared
            bad += ck.bad
            continue
        named_g = ck.named_general()
        have = expected_general_labels(m, ref)
        for lab in statistics:
            if lab in df.index and lab not in have:
                ck.structure(vkey, 'cell of a statistic the model does not have is empty', '', df.loc[lab, col])
            elif lab in df.index:
                key, _ = GENERAL_LABELS[lab]
                ck.num(vkey, f'statistic row:{lab}', f'[{lab},{col}]', df.loc[lab, col], general_ref(ck, key), named_g, key)
        for lab, (nm, what) in prow.items():
            if lab not in df.index:
                continue
            cell = df.loc[lab, col]
            where = f'[{lab},{col}]'
            if nm not in m['names']:
                ck.structure(vkey, 'cell of a parameter the model does not have is empty', '', cell)
                continue
            i = m['names'].index(nm)
            named = ck.named_param(i)
            rob = ref['fam']['robust']
            se = rob['se'][i] if isnum(rob['se'][i]) and rob['se'][i] > 0 else 'undefined'
            if what == 'value':
                ck.num(vkey, 'row <name>', where, cell, m['values'][i], named, 'estimate')
            elif what == 'se':
                ck.num(vkey, 'row <name> (std)', where, cell, se, named, 'robust std err')
            elif what == 't':
                ck.num(vkey, 'row <name> (ttest)', where, cell, rob['t'][i], named, 'robust t', ATOL)
            else:
                toks = str(cell).split(' ')
                ck.structure(vkey, 'formatted cell has the form "value (std) (t)"', 3, len(toks))
                if len(toks) != 3:
                    continue
                ck.text(vkey, 'formatted:value', where, toks[0], m['values'][i], '.3g', named, 'estimate')
                for tok, on, refv, nm_, lab_ in ((toks[1], se_f, se, 'robust std err', 'formatted:(std)'),
                                               (toks[2], tt_f, rob['t'][i], 'robust t', 'formatted:(t-test)')):
                    if not on:
                        ck.structure(vkey, f'{lab_} absent when not requested', '', tok)
                    elif not (tok.startswith('(') and tok.endswith(')')):
                        ck.structure(vkey, f'{lab_} parenthesised', '(...)', tok)
                    else:
                        ck.text(vkey, lab_, where, tok[1:-1], refv, '.3g', named, nm_)
        compared += ck.compared
        skipped += ck.skipped
        bad += ck.bad
    rec.count('cells_compared', compared)
    if kinds is not None:
        rec.case(('p', form, tuple(tup), tuple(kinds), tuple(flags), stats_kind, seed) if compared else None,
                 (list(tup), list(kinds), form, list(flags), stats_kind, compared, skipped, bad),
                 outcome=('compile-entries', form, tuple(sorted(set(kinds))), kw['formatted'], skipped > 0, bad > 0))
        return
    rec.case(('c', tuple(tup), tuple(flags), stats_kind, seed) if compared else None,
             (list(tup), list(flags), stats_kind, compared, skipped, bad),
             outcome=('compile', tuple(flags), len(tup), skipped > 0, bad > 0))


def run_compile_task(task, rec):
    built = {}
    if task.get('replay'):
        check_compile(task['tuple'], task['seed'], task['flags'], task['stats'], rec, built)
        return
    first = True
    allflags = list(itertools.product((1, 0), repeat=5))
    if task.get('flagset') == 'formatted-x-short':  # the statistic rows do not depend on the three parameter switches
        allflags = [f for f in allflags if f[0] == f[1] == f[2]]
    for sk in task['stats']:
        for flags in allflags:
            try:
                check_compile(task['tuple'], task['seed'], list(flags), sk, rec, built)
            except Exception as e:
                rec.case(None, ('raise', type(e).__name__), outcome=('compile-raises', type(e).__name__))
                rec.violation(f'{ID}|compile_estimation_results-raises:{type(e).__name__}|formatted={flags[3]}',
                              f'compile_estimation_results raised {type(e).__name__}: {e} for pool tuple {task["tuple"]} '
                              f'flags={dict(zip(FLAG_NAMES, flags))}',
                              dict(part='c', seed=task['seed'], tuple=task['tuple'], flags=list(flags), stats=sk),
                              observed=repr(e))
            if first:
                rec.sample(dict(part='c', tuple=task['tuple'], flags=dict(zip(FLAG_NAMES, flags)), stats=sk,
                                models=[POOL[i] for i in task['tuple']]))
                first = False


# ----------------------------------------------------------------------------------------- part p: entries given as files
READABLE_KINDS = ('obj', 'file')
ENTRY_KINDS = ['obj', 'file', 'missing', 'corrupt', 'foreign', 'empty', 'dir']
DIRECTORY_KINDS = ('file', 'corrupt', 'foreign', 'empty')  # what a directory listing can contain


class EntryFiles:
    """The files behind the non-object entries (a private temporary directory, removed by close())."""

    def __init__(self):
        import tempfile
        self.dir = tempfile.mkdtemp(prefix='c08p_')
        self.paths = {}
        self.ndir = 0

    def in_dir(self, where, fn):
        cwd = os.getcwd()
        os.chdir(where)
        try:
            return fn()
        finally:
            os.chdir(cwd)

    def path(self, kind, idx, r):
        import pickle
        if (kind, idx) in self.paths:
            return self.paths[(kind, idx)]
        p = os.path.join(self.dir, f'{kind}{idx}.pickle')
        if kind == 'file':
            sub = os.path.join(self.dir, f'written{idx}')
            os.mkdir(sub)
            p = os.path.join(sub, self.in_dir(sub, r.write_pickle))  # the library's own writer
        elif kind == 'corrupt':
            with open(p, 'wb') as f:
                f.write(b'\x80\x04\x95 these bytes are not a pickle of estimation results')
        elif kind == 'empty':
            open(p, 'wb').close()
        elif kind == 'foreign':
            with open(p, 'wb') as f:
                pickle.dump({'not': 'estimation results'}, f)
        elif kind == 'dir':
            os.mkdir(p)
        elif kind != 'missing':
            raise ValueError(kind)
        self.paths[(kind, idx)] = p
        return p

    def compile_directory(self, res, entries, statistics, kw):
        """copies the files of the entries into a fresh directory and calls compile_results_in_directory there;
        returns (table, file name of each entry) or None"""
        import shutil
        self.ndir += 1
        sub = os.path.join(self.dir, f'listing{self.ndir}')
        os.mkdir(sub)
        names = []
        for kind, idx, r in entries:
            name = f'pool{idx}_{kind}.pickle'
            shutil.copyfile(self.path(kind, idx, r), os.path.join(sub, name))
            names.append(name)
        try:
            df = self.in_dir(sub, lambda: res.compile_results_in_directory(
                statistics=statistics, include_parameter_estimates=kw['include_parameter_estimates'],
                include_robust_stderr=kw['include_robust_stderr'], include_robust_ttest=kw['include_robust_ttest'],
                formatted=kw['formatted']))
        finally:
            shutil.rmtree(sub, ignore_errors=True)
        if df is None:
            return None
        if isinstance(df, tuple):
            df = df[0]
        return df, names

    def close(self):
        import shutil
        shutil.rmtree(self.dir, ignore_errors=True)


def entry_tasks(tier, seed):
    if tier == 'quick':
        pool, kinds, kinds3 = (0, 1, 2), ENTRY_KINDS[:4], ENTRY_KINDS[:4]
    else:
        pool, kinds, kinds3 = (0, 1, 2, 6), ENTRY_KINDS, ENTRY_KINDS[:5]
    t = []
    for ln in (1, 2, 3):
        for tup in itertools.permutations(pool, ln):
            if ln < 3:
                t.append(dict(part='p', seed=seed, tier=tier, tuple=list(tup), kinds=list(kinds)))
            else:  # one task per kind of the first entry
                t += [dict(part='p', seed=seed, tier=tier, tuple=list(tup), kinds=list(kinds3), first=k0) for k0 in kinds3]
    return t


def entry_flags(tier, ln):
    """all 2^5 switch combinations; in the quick tier, for three entries, the 2^3 ones with both robust switches on"""
    allf = [list(f) for f in itertools.product((1, 0), repeat=5)]
    if tier == 'quick' and ln == 3:
        return [f for f in allf if f[1] == 1 and f[2] == 1]
    return allf


def run_entry_task(task, rec):
    built = {}
    files = EntryFiles()
    try:
        if task.get('replay'):
            check_compile(task['tuple'], task['seed'], task['flags'], task['stats'], rec, built, kinds=task['kinds'],
                          files=files, form=task.get('form', 'dict'))
            return
        tup = task['tuple']
        first = True
        for kinds in itertools.product(task['kinds'], repeat=len(tup)):
            if task.get('first') and kinds[0] != task['first']:
                continue
            forms = ['dict'] + (['directory'] if all(kd in DIRECTORY_KINDS for kd in kinds) else [])
            for form in forms:
                for flags in entry_flags(task['tier'], len(tup)):
                    if form == 'directory' and not flags[4]:
                        continue  # compile_results_in_directory has no use_short_names switch: once
                    try:
                        check_compile(tup, task['seed'], flags, 'default', rec, built, kinds=list(kinds), files=files, form=form)
                    except Exception as e:
                        rec.case(None, ('raise', type(e).__name__), outcome=('compile-raises', type(e).__name__))
                        rec.violation(f'{ID}|compile-with-file-entries-raises:{type(e).__name__}|form={form},formatted={flags[3]}',
                                      f'compiling the pool tuple {tup} given as {list(kinds)} ({form}) raised '
                                      f'{type(e).__name__}: {e}; flags={dict(zip(FLAG_NAMES, flags))}',
                                      dict(part='p', seed=task['seed'], tuple=tup, kinds=list(kinds), form=form,
                                           flags=list(flags), stats='default'), observed=repr(e))
                    if first:
                        rec.sample(dict(part='p', tuple=tup, entries=list(kinds), form=form,
                                        flags=dict(zip(FLAG_NAMES, flags)), models=[POOL[i] for i in tup]))
                        first = False
    finally:
        files.close()


# ----------------------------------------------------------------------------------------- part l: likelihood ratio test
LR_SHIFT = [0.0, -0.5, 3.0, -7.25, 1.0, 0.25, -2.0, 0.125]


def lr_grid(tier, seed):
    sh = LR_SHIFT[seed % 8]
    lls = [-10.0 + sh, -12.0 + sh, -12.5 + sh, -20.0 + sh] + ([-10.001 + sh, -55.0 + sh] if tier == 'thorough' else [])
    ks = [1, 2, 3, 5] + ([4, 12] if tier == 'thorough' else [])
    alphas = [0.05, 0.01, 0.1, 0.5] + ([0.001, 0.9, 0.025] if tier == 'thorough' else [])
    return lls, ks, alphas


def lr_reference(m1, m2, alpha):
    """the test of an unordered pair of models: 'ok' (statistic, degrees of freedom) / 'error' (the model with more
    parameters fits worse) / 'no-test' (as many parameters in both: the chi-square distribution with
    K1 - K2 = 0 degrees of freedom has no quantile, no threshold and no verdict follow from any formula).
    Two equal log likelihoods with different parameter counts are an ordinary pair: statistic 0, never rejected."""
    (l1, k1), (l2, k2) = m1, m2
    if k1 == k2:
        return ('no-test',)
    (lu, ku), (lr_, kr) = (m1, m2) if k1 > k2 else (m2, m1)
    if lu < lr_:
        return ('error',)
    stat = -2 * (lr_ - lu)
    return ('ok', stat, ku - kr)


def check_lr(form, m1, m2, alpha, seed, rec, objs=None):
    from biogeme.exceptions import BiogemeError
    import biogeme.tools.likelihood_ratio as lrmod

    case = dict(part='l', seed=seed, form=form, m1=list(m1), m2=list(m2), alpha=alpha)
    ref = lr_reference(m1, m2, alpha)
    try:
        if form == 'function':
            out = lrmod.likelihood_ratio_test(tuple(m1), tuple(m2), alpha)
        else:
            # bioResults.likelihood_ratio_test(other): self = m2, other = m1
            out = objs[tuple(m2)].likelihood_ratio_test(objs[tuple(m1)], alpha)
        obs = ('ok', out.message, float(out.statistic), float(out.threshold))
    except BiogemeError as e:
        obs = ('error', str(e)[:80])
    tag = f'likelihood_ratio_test[{form}]({m1}, {m2}, {alpha})'
    if ref[0] == 'excluded':
        rec.count('lr_excluded_' + ref[1].split(' ')[0])
        rec.case(None, (form, m1, m2, alpha, obs[0]), outcome=('lr-excluded', ref[1], obs[0]))
        return
    key = ('l', form, tuple(m1), tuple(m2), alpha)
    order = 'unrestricted-first' if m1[1] > m2[1] else 'restricted-first'
    if ref[0] == 'no-test':
        # the same number of parameters: no chi-square quantile exists; whatever is reported as threshold / verdict
        # does not follow from the raw outcome.  A refusal (BiogemeError) is the only answer without a figure.
        rel = 'tie' if m1[0] == m2[0] else ('first-fits-better' if m1[0] > m2[0] else 'first-fits-worse')
        rec.case(key, (form, m1, m2, alpha, obs[0]), outcome=('lr-no-test', rel, obs[0]))
        if obs[0] != 'error':
            rec.violation(f'{ID}|likelihood_ratio_test|equal-parameter-counts:verdict-and-threshold-reported',
                          f'{tag}: both models have {m1[1]} parameters (chi-square with 0 degrees of freedom: no '
                          f'threshold exists), yet a verdict is reported: message {obs[1]!r}, statistic {obs[2]!r}, '
                          f'threshold {obs[3]!r}; the same pair in the other order is refused with a BiogemeError '
                          f'(first model: {rel})', case, expected='BiogemeError (no test between models with the same '
                          'number of parameters)', observed=[obs[0], obs[1], repr(obs[2]), repr(obs[3])])
        return
    tie = m1[0] == m2[0]
    if ref[0] == 'error':
        rec.case(key, (form, m1, m2, alpha, obs[0]), outcome=('lr-error-expected', obs[0]))
        if obs[0] != 'error':
            rec.violation(f'{ID}|likelihood_ratio_test|unrestricted-worse-accepted:{form}:{order}',
                          f'{tag}: the model with more parameters has the lower log likelihood; a BiogemeError is '
                          f'documented, got {obs}', case, expected='BiogemeError', observed=list(obs))
        return
    _, stat, df = ref
    if obs[0] != 'ok':
        rec.case(key, (form, m1, m2, alpha, obs[0]), outcome=('lr-ok-expected', obs[0], tie))
        if tie:
            # one root cause whatever the call form: its own key
            rec.violation(f'{ID}|likelihood_ratio_test|equal-log-likelihoods-refused:{order}',
                          f'{tag}: the two log likelihoods are equal (statistic 0, {df} degrees of freedom: H0 cannot be '
                          f'rejected); the pair is refused: {obs} - the model with more parameters does not have a lower '
                          f'log likelihood, and the same pair in the other order is accepted', case,
                          expected=['ok', stat, df], observed=list(obs))
            return
        rec.violation(f'{ID}|likelihood_ratio_test|valid-pair-refused:{form}:{order}',
                      f'{tag}: valid nested pair refused: {obs}', case, expected=['ok', stat, df], observed=list(obs))
        return
    _, msg, ostat, othr = obs
    bad = []
    if not close(ostat, stat):
        bad.append(('statistic', stat, ostat))
    cdf = rs.chi2_cdf(othr, df) if othr == othr and othr > 0 else float('nan')
    if not (abs(cdf - (1.0 - alpha)) <= 1e-9):
        bad.append((f'threshold: chi2 cdf(df={df}) at the reported threshold', 1.0 - alpha, cdf))
    if abs(stat - othr) < 1e-9:
        rec.count('lr_fragile_statistic_at_threshold')
    else:
        verdict = 'cannot' if stat <= othr else 'can'
        want = f'H0 {verdict} be rejected at level {100 * alpha:.1f}%'
        if msg != want:
            bad.append(('message', want, msg))
    rec.case(key, (form, m1, m2, alpha, msg, ostat, othr), outcome=('lr', msg.split(' at ')[0], not bad))
    for what, e, o in bad:
        rec.violation(f'{ID}|likelihood_ratio_test|{what.split(":")[0]}:{form}:{order}',
                      f'{tag}: {what}: expected {e!r}, observed {o!r}', case, expected=e, observed=o)


def lr_objects(lls, seed):
    objs = {}
    for k in (1, 2, 3):
        for ll in lls:
            d = dict(k=k, h=0, b='info', v=0, boot='none', bd='none', null='absent', init='present', n=0)
            m = materialise(d, seed)
            m['loglike'] = ll
            objs[(ll, k)] = build_results(m)
    return objs


def run_lr_task(task, rec):
    seed = task['seed']
    if task.get('replay'):
        objs = lr_objects([task['m1'][0], task['m2'][0]], seed) if task['form'] == 'method' else None
        check_lr(task['form'], tuple(task['m1']), tuple(task['m2']), task['alpha'], seed, rec, objs)
        return
    lls, ks, alphas = lr_grid(task['tier'], seed)
    form = task['form']
    objs = None
    if form == 'method':
        ks = [1, 2, 3]
        objs = lr_objects(lls, seed)
    first = True
    for l1, k1, l2, k2, a in itertools.product(lls, ks, lls, ks, alphas):
        check_lr(form, (l1, k1), (l2, k2), a, seed, rec, objs)
        if first:
            rec.sample(dict(part='l', form=form, m1=[l1, k1], m2=[l2, k2], alpha=a))
            first = False


# ----------------------------------------------------------------------------------------- part r: real estimations
REAL_DATA = [
    dict(x=[1.0, 2.0, 3.0, 4.0], y=[2.0, 2.5, 3.75, 4.5]),
    dict(x=[1.0, 2.0, 3.0, 4.0], y=[1.75, 2.75, 3.0, 4.25]),
    dict(x=[1.0, 2.0, 3.0, 5.0], y=[1.5, 2.25, 3.5, 4.25]),
    dict(x=[0.5, 2.0, 3.0, 4.0], y=[2.0, 2.5, 3.5, 4.75]),
]
LOGIT_DATA = [
    dict(x1=[1.0, 2.0, 3.0, 1.5, 2.5, 0.5], x2=[2.0, 1.0, 2.5, 2.5, 1.0, 2.0], choice=[1, 2, 1, 2, 2, 1]),
    dict(x1=[1.0, 2.0, 3.0, 1.5, 2.5, 0.5], x2=[2.0, 1.5, 2.0, 1.0, 3.0, 1.0], choice=[1, 2, 2, 1, 1, 2]),
]
# a least-squares model with four parameters (six observations; any resample with one deviation keeps it identified)
REAL_DATA4 = [
    dict(x1=[1.0, 2.0, 3.0, 4.0, 2.5, 0.5], x2=[2.0, 1.0, 2.5, 0.5, 3.0, 1.5], x3=[0.5, 1.5, 1.0, 2.0, 0.0, 2.5],
         y=[3.0, 3.5, 5.75, 5.0, 5.5, 3.25]),
    dict(x1=[1.0, 2.0, 3.0, 4.0, 1.5, 0.5], x2=[1.0, 2.5, 0.5, 2.0, 3.0, 1.5], x3=[2.0, 0.5, 1.5, 1.0, 0.0, 2.5],
         y=[3.25, 4.5, 4.0, 6.25, 4.0, 3.5]),
]
# 'logit2i': the logit with non-zero starting values - its initial log likelihood differs from its null log likelihood
# (with the starting values 0 of 'logit2' the two coincide and the rows of one cannot be told from the other's)
# 'ls1u' / 'logit2u': the variables are expressed in very large units (x 2^E; the second variable of the logit
# x 2^(E-2)), so that the estimates and their standard errors are tiny (about 2^-E) while t is ordinary; the logit
# has no constant (a constant would be a parameter in unit scale next to one in units of 2^-E: condition number 4^E)
REAL_MODELS = ['ls1', 'ls2', 'logit2', 'ls4', 'logit2i', 'ls1u', 'logit2u']
REAL_K = {'ls1': 1, 'ls2': 2, 'logit2': 2, 'ls4': 4, 'logit2i': 2, 'ls1u': 1, 'logit2u': 2}
REAL_N = {'ls1': 4, 'ls2': 4, 'logit2': 6, 'ls4': 6, 'logit2i': 6, 'ls1u': 4, 'logit2u': 6}
REAL_UNIT_EXP = [30, 27, 33, 40]


def real_units(model, seed):
    """units of the parameters of a real model (None: unit scale)"""
    e = REAL_UNIT_EXP[seed % 4]
    return {'ls1u': [2.0 ** -e], 'logit2u': [2.0 ** -e, 2.0 ** (2 - e)]}.get(model)
LOGIT_START = [(0.5, -0.25), (-0.25, 0.5), (0.25, 0.75), (-0.5, -0.5)]
REAL_THR = ['one', 'e+4']


def real_biogeme(model, seed, nboot, thr='default'):
    import pandas as pd
    import biogeme.biogeme as bb
    import biogeme.database as db
    from biogeme import models
    from biogeme.expressions import Beta, Variable, exp
    from biogeme.parameters import Parameters

    names = NAME_POOLS[seed % 4]
    units = real_units(model, seed)
    if model == 'logit2u':
        data = dict(LOGIT_DATA[seed % 2])
        data['x1'] = [x / units[0] for x in data['x1']]
        data['x2'] = [x / units[1] for x in data['x2']]
        d = db.Database('c08real', pd.DataFrame(data))
        v = {1: Beta(names[2][0], 0.0, None, None, 0) * Variable('x1'),
             2: Beta(names[2][1], 0.0, None, None, 0) * Variable('x2')}
        ll = models.loglogit(v, None, Variable('choice'))
    elif model == 'ls1u':
        data = dict(REAL_DATA[seed % 4])
        data['x'] = [x / units[0] for x in data['x']]
        d = db.Database('c08real', pd.DataFrame(data))
        ll = -((Variable('y') - Beta(names[1][0], 0.0, None, None, 0) * Variable('x')) ** 2)
    elif model in ('logit2', 'logit2i'):
        data = LOGIT_DATA[seed % 2]
        d = db.Database('c08real', pd.DataFrame(data))
        s0 = LOGIT_START[seed % 4] if model == 'logit2i' else (0.0, 0.0)
        bt = Beta(names[2][0], s0[0], None, None, 0)
        asc = Beta(names[2][1], s0[1], None, None, 0)
        v = {1: asc + bt * Variable('x1'), 2: bt * Variable('x2')}
        ll = models.loglogit(v, None, Variable('choice'))
    elif model == 'ls4':
        data = REAL_DATA4[seed % 2]
        d = db.Database('c08real', pd.DataFrame(data))
        bs = [Beta(nm.replace(' ', '_'), 0.0, None, None, 0) for nm in names[4]]
        ll = -((Variable('y') - bs[0] * Variable('x1') - bs[1] * Variable('x2') - bs[2] * Variable('x3') - bs[3]) ** 2)
    else:
        data = REAL_DATA[seed % 4]
        d = db.Database('c08real', pd.DataFrame(data))
        if model == 'ls1':
            b1 = Beta(names[1][0], 0.0, None, None, 0)
            ll = -((Variable('y') - b1 * Variable('x')) ** 2)
        else:
            b1 = Beta(names[2][0], 0.0, None, 0.6 if seed % 2 else None, 0)
            b2 = Beta(names[2][1], 0.0, None, None, 0)
            ll = -((Variable('y') - b1 * Variable('x') - b2) ** 2)
    extra = {} if THR_KINDS[thr] is None else dict(identification_threshold=THR_KINDS[thr])
    b = bb.BIOGEME(d, ll, parameters=Parameters(), generate_html=False, generate_pickle=False,
                   save_iterations=False, number_of_threads=1, bootstrap_samples=max(nboot, 1), **extra)
    b.modelName = 'c08real_' + model
    if model in ('logit2', 'logit2i', 'logit2u'):
        b.calculate_null_loglikelihood({1: 1, 2: 1})
    return b, len(next(iter(data.values())))


def tape_pool(n):
    """resamples with exactly one deviation from the identity: row j replaced by row i (i < j)"""
    out = []
    for i in range(n):
        for j in range(i + 1, n):
            v = list(range(n))
            v[j] = i
            out.append(v)
    return out


def real_tasks(tier, seed):
    t = []
    for model in REAL_MODELS:
        n = REAL_N[model]
        pool = tape_pool(n)[:5 if tier == 'quick' else 6]
        if model in ('logit2i', 'ls1u', 'logit2u') and tier == 'quick':
            pool = pool[:4]
        sizes = (3,) if tier == 'quick' else (2, 3, 4)
        tapes = [None] + [list(c) for b in sizes for c in itertools.combinations(range(len(pool)), b)]
        # bootstrap samples of ONE replication (every figure of the bootstrap family is undefined, the rest is not)
        tapes += [[i] for i in range(1 if tier == 'quick' else len(pool))]
        for i in range(0, len(tapes), 4):
            t.append(dict(part='r', seed=seed, model=model, tapes=tapes[i:i + 4]))
        # the identification_threshold parameter of BIOGEME (forwarded to the results object) x tapes
        for thr in REAL_THR:
            sub = tapes[:2] if tier == 'quick' else tapes[:1] + tapes[1::3]
            for i in range(0, len(sub), 4):
                t.append(dict(part='r', seed=seed, model=model, tapes=sub[i:i + 4], thr=thr))
    return t


def m_from_results(r):
    d = r.data
    k = d.nparam
    return dict(k=k, names=list(d.betaNames), values=[float(v) for v in d.betaValues],
                hessian=[[float(x) for x in row] for row in d.H], bhhh=[[float(x) for x in row] for row in d.bhhh],
                loglike=float(d.logLike), init=None if d.initLogLike is None else float(d.initLogLike),
                null=None if d.nullLogLike is None else float(d.nullLogLike),
                bootstrap=None if d.bootstrap is None else [[float(x) for x in row] for row in d.bootstrap],
                bounds=[(b.lb, b.ub) for b in d.betas], n=int(d.sampleSize), nobs=int(d.numberOfObservations),
                gradient=[float(g) for g in d.g], excluded=d.excludedData, threads=d.numberOfThreads, label='real')


def check_real(model, tape, seed, rec, sample=False, thr='default'):
    import numpy as np
    import numpy.random as npr

    case = dict(part='r', seed=seed, model=model, tape=tape)
    tag = f'real estimation model={model} bootstrap tape={tape} seed={seed}'
    if thr != 'default':
        case['thr'] = thr
        tag += f' identification_threshold={THR_KINDS[thr]}'
    nboot = 0 if tape is None else len(tape)
    b, n = real_biogeme(model, seed, nboot, thr)
    pool = tape_pool(n)
    queue = [] if tape is None else [pool[i] for i in tape]
    saved = npr.randint

    def fake_randint(low, high=None, size=None, **kw):
        return np.array(queue.pop(0), dtype=int)

    npr.randint = fake_randint
    try:
        try:
            r = b.estimate(run_bootstrap=tape is not None)
        finally:
            npr.randint = saved
    except Exception as e:
        import traceback
        tb = traceback.format_exc()
        in_results = 'results.py' in tb.split('\n')[-4] or '_calculate_stats' in tb
        rec.case(('r', model, repr(tape), thr, 'estimate'), ('raise', type(e).__name__), outcome=('estimate-raises', type(e).__name__))
        if in_results:
            k = REAL_K[model]
            rec.violation(f'{ID}|bioResults-raises:{type(e).__name__}|K={k},bootstrap={"no" if tape is None else "yes"}',
                          f'estimate() raised {type(e).__name__}: {e} while computing the statistics of a real outcome [{tag}]',
                          case, expected='statistics computed', observed=f'{type(e).__name__}: {e}')
        else:
            raise
        return
    m = m_from_results(r)
    if real_units(model, seed):
        m['unit'] = real_units(model, seed)
    if not rs.is_psd(rs.neg(rs.fmat(m['hessian']))):
        rec.count('skipped_out_of_domain_hessian_not_nsd')
        rec.case(None, (model, tape, 'not-nsd'), outcome='real-not-nsd')
        return
    if m['bootstrap'] is not None and len(m['bootstrap']) >= 2:
        cov = rs.to_float(rs.sample_cov(m['bootstrap']))
        mean2 = [sum(row[j] for row in m['bootstrap']) ** 2 / len(m['bootstrap']) ** 2 for j in range(m['k'])]
        if any(cov[j][j] < 1e-4 * max(mean2[j], 1e-12) for j in range(m['k'])):
            rec.count('skipped_ill_conditioned_bootstrap_sample')
            rec.case(None, (model, tape, 'ill'), outcome='real-ill-conditioned')
            return
    ref = reference(m)
    if sample:
        rec.sample(dict(part='r', model=model, tape=tape, values=m['values'], hessian=m['hessian'], bootstrap=m['bootstrap']))
    run_views(r, m, ref, case, tag, ('r', model, repr(tape), seed) + (() if thr == 'default' else (thr,)), rec)


def run_real_task(task, rec):
    if task.get('replay'):
        check_real(task['model'], task['tape'], task['seed'], rec, thr=task.get('thr', 'default'))
        return
    for i, tape in enumerate(task['tapes']):
        check_real(task['model'], tape, task['seed'], rec, sample=(i == 1), thr=task.get('thr', 'default'))


# ----------------------------------------------------------------------------------------- wiring of the extra parts
def extra_tasks(tier, seed):  # noqa: F811
    t = [dict(part='l', seed=seed, tier=tier, form='function'), dict(part='l', seed=seed, tier=tier, form='method')]
    t += real_tasks(tier, seed)
    t += compile_tasks(tier, seed)
    t += entry_tasks(tier, seed)
    return t


def run_extra(task, rec):  # noqa: F811
    if task['part'] == 'c':
        run_compile_task(task, rec)
    elif task['part'] == 'l':
        run_lr_task(task, rec)
    elif task['part'] == 'r':
        run_real_task(task, rec)
    elif task['part'] == 'p':
        run_entry_task(task, rec)
    else:
        raise ValueError(task['part'])


# ----------------------------------------------------------------------------------------- text views of one outcome
SUMMARY_LABELS = {
    'Nbr of parameters': ('K', ''), 'Sample size': ('sample_size', ''), 'Observations': ('observations', ''),
    'Excluded data': ('excluded', ''), 'Null log likelihood': ('null', '.7g'), 'Init log likelihood': ('init', '.7g'),
    'Final log likelihood': ('final', '.7g'), 'Likelihood ratio test (null)': ('lr_null', '.7g'),
    'Rho square (null)': ('rho_null', '.3g'), 'Rho bar square (null)': ('rhobar_null', '.3g'),
    'Likelihood ratio test (init)': ('lr_init', '.7g'), 'Rho square (init)': ('rho_init', '.3g'),
    'Rho bar square (init)': ('rhobar_init', '.3g'), 'Akaike Information Criterion': ('aic', '.7g'),
    'Bayesian Information Criterion': ('bic', '.7g'), 'Final gradient norm': ('gradnorm', '.7g'),
}


def summary_labels(m, full):
    labs = ['Nbr of parameters', 'Sample size'] + (['Observations'] if m['n'] != m['nobs'] else []) + ['Excluded data']
    if m['null'] is not None:
        labs.append('Null log likelihood')
    if full and m['init'] is not None:
        labs.append('Init log likelihood')
    labs.append('Final log likelihood')
    if m['null'] is not None:
        labs += ['Likelihood ratio test (null)', 'Rho square (null)', 'Rho bar square (null)']
    if full and m['init'] is not None:
        labs += ['Likelihood ratio test (init)', 'Rho square (init)', 'Rho bar square (init)']
    labs += ['Akaike Information Criterion', 'Bayesian Information Criterion']
    if full:
        labs.append('Final gradient norm')
    return labs


def check_label_lines(ck, view, lines, m, full):
    seen = []
    named = ck.named_general()
    for ln in lines:
        lab, sep, val = ln.partition(':')
        if not sep or lab not in SUMMARY_LABELS:
            continue
        seen.append(lab)
        key, spec = SUMMARY_LABELS[lab]
        ck.text(view, lab, lab, val.strip('\t'), general_ref(ck, key), spec, named, key)
    ck.structure(view, 'labels', summary_labels(m, full), seen)


def view_short_summary(r, ck):
    check_label_lines(ck, 'short_summary', r.short_summary().split('\n'), ck.m, False)


def view_str(r, ck):
    m, k = ck.m, ck.m['k']
    if m['init'] is not None and m['init'] == 0:
        try:
            str(r)
            ck.rec.count('text_view_survived_undefined_statistic')
        except TypeError:
            ck.rec.count('text_view_raised_on_undefined_statistic')
        return
    lines = str(r).split('\n')
    check_label_lines(ck, '__str__', lines, m, True)
    fams = ['classical', 'robust'] + (['bootstrap'] if m['bootstrap'] is not None else [])
    for i, nm in enumerate(m['names']):
        pre = f'{nm:15}: '
        hits = [ln for ln in lines if ln.startswith(pre)]
        ck.structure('__str__', 'one line per parameter', 1, len(hits))
        if len(hits) != 1:
            continue
        rest = hits[0][len(pre):]
        val, _, groups = rest.partition('[')
        named = ck.named_param(i)
        ck.text('__str__', 'parameter value', nm, val, m['values'][i], '.3g', named, 'estimate')
        gs = re.findall(r'\[([^\]]*)\]', '[' + groups)
        ck.structure('__str__', 'bracket groups per parameter', len(fams), len(gs))
        for fam, gtxt in zip(fams, gs):
            toks = gtxt.split(' ')
            if len(toks) != 3:
                ck.structure('__str__', 'three figures per bracket', 3, len(toks))
                continue
            f = ck.ref['fam'][fam]
            se = f['se'][i] if isnum(f['se'][i]) and f['se'][i] > 0 else 'undefined'
            for tok, fld, refv in zip(toks, ('se', 't', 'p'), (se, f['t'][i], f['p'][i])):
                if fld == 'p' and isnum(refv) and refv < 1e-6:
                    refv = 'undefined'  # 1 - Phi loses all relative accuracy: the 3 printed digits are noise
                ck.text('__str__', f'bracket:{fam} {FIELD_NAME[fld]}', nm, tok, refv, '.3g', named,
                        f'{fam} {FIELD_NAME[fld]}')
    for i in range(k):
        for j in range(i):
            pre = f'{(m["names"][i], m["names"][j])}:\t'
            hits = [ln for ln in lines if ln.startswith(pre)]
            ck.structure('__str__', 'one line per pair', 1, len(hits))
            if len(hits) != 1:
                continue
            toks = hits[0][len(pre):].split('\t')
            ck.structure('__str__', 'eight figures per pair', 8, len(toks))
            np_ = ck.named_pair(i, j)
            for tok, (fam, fld) in zip(toks, [(f, x) for f in ('classical', 'robust')
                                              for x in ('cov', 'corr', 'pair_t', 'pair_p')]):
                text_pair(ck, '__str__', f'pair:{fam} {FIELD_NAME[fld]}', f'({i},{j})', tok, fam, fld, i, j, np_)


def text_pair(ck, view, label, where, tok, fam, fld, i, j, np_):
    refv = ck.ref['fam'][fam][fld][i][j]
    if isnum(refv):
        scale = max(abs(x) for row in ck.ref['fam'][fam]['cov'] for x in row) if fld == 'cov' else 1.0
        if abs(refv) < 1e-6 * max(scale, 1e-300):
            refv = 'undefined'  # an exact zero (or a p-value below 1e-6) printed with 3 significant digits is rounding noise
    ck.text(view, label, where, tok, refv, '.3g', np_, f'{fam} {FIELD_NAME[fld]}')


def view_html(r, ck, only_robust):
    m, k = ck.m, ck.m['k']
    view = 'get_html'
    html = r.get_html(only_robust=only_robust)
    named = ck.named_general()
    stats = re.findall(r'<tr class=biostyle><td align=right ><strong>(.*?)</strong>: </td> <td>(.*?)</td></tr>', html)
    exp = []
    for lab in expected_general_labels(m, ck.ref):
        if lab in GENERAL_LABELS and general_ref(ck, GENERAL_LABELS[lab][0]) in (None, 'undefined'):
            continue
        exp.append(lab)
    optim = set(r.data.optimizationMessages)  # the optimiser's diagnostics share the table; not statistics
    stats = [s_ for s_ in stats if s_[0] not in optim]
    ck.structure(view, 'statistics labels', exp, [s_[0] for s_ in stats])
    for lab, val in stats:
        if lab in GENERAL_LABELS:
            key, spec = GENERAL_LABELS[lab]
            ck.text(view, lab, lab, val, general_ref(ck, key), spec, named, key)
    try:
        ptab = html.split('<h1>Estimated parameters</h1>')[1].split('<h2>Correlation of coefficients</h2>')[0]
        ctab = html.split('<h2>Correlation of coefficients</h2>')[1].split('</table>')[0]
    except IndexError:
        ck.structure(view, 'sections present', True, False)
        return
    rows = re.findall(r'<tr class=biostyle>(.*?)</tr>', ptab)
    head = re.findall(r'<th>(.*?)</th>', rows[0]) if rows else []
    any_active = any(ck.ref['active'])
    cols = ['Name', 'Value'] + (['Active bound'] if any_active else [])
    if not only_robust:
        cols += ['Std err', 't-test', 'p-value']
    cols += ['Rob. Std err', 'Rob. t-test', 'Rob. p-value']
    bootcol = None
    if m['bootstrap'] is not None and not only_robust:
        bootcol = f'Bootstrap[{len(m["bootstrap"])}] Std err'
        cols += [bootcol, 'Bootstrap t-test', 'Bootstrap p-value']
    ck.structure(view, f'parameter columns(only_robust={only_robust})', cols, head)
    body = [re.findall(r'<td>(.*?)</td>', x) for x in rows[1:]]
    ck.structure(view, 'parameter rows', m['names'], [b[0] for b in body if b])
    for b in body:
        if not b or b[0] not in m['names'] or len(b) != len(head):
            continue
        i = m['names'].index(b[0])
        namedp = ck.named_param(i)
        for c, tok in zip(head[1:], b[1:]):
            lab = 'Bootstrap[B] Std err' if c == bootcol else c
            if c == 'Value':
                ck.text(view, lab, b[0], tok, m['values'][i], '.3g', namedp, 'estimate')
            elif c == 'Active bound':
                ck.text(view, lab, b[0], tok, 1.0 if ck.ref['active'][i] else 0.0, '.3g', None, 'active-bound flag')
            else:
                fam, fld = ('bootstrap', 'se') if c == bootcol else PARAM_COLS.get(c, (None, None))
                if fam is None or ck.ref['fam'][fam] is None:
                    continue
                refv = ck.ref['fam'][fam][fld][i]
                if fld == 'se' and not (isnum(refv) and refv > 0):
                    refv = 'undefined'
                if fld == 'p' and isnum(refv) and refv < 1e-6:
                    refv = 'undefined'
                ck.text(view, lab, b[0], tok, refv, '.3g', namedp, f'{fam} {FIELD_NAME[fld]}')
    rows = re.findall(r'<tr class=biostyle>(.*?)</tr>', ctab)
    head = re.findall(r'<th>(.*?)</th>', rows[0]) if rows else []
    pcols = list(PAIR_COLS)[:8] + (list(PAIR_COLS)[8:] if m['bootstrap'] is not None else [])
    ck.structure(view, 'correlation columns', ['Coefficient1', 'Coefficient2'] + pcols, head)
    body = [re.findall(r'<td>(.*?)</td>', x) for x in rows[1:]]
    ck.structure(view, 'correlation rows', [[m['names'][i], m['names'][j]] for i in range(k) for j in range(i)],
                 [b[:2] for b in body])
    for b in body:
        if len(b) != len(head) or b[0] not in m['names'] or b[1] not in m['names']:
            continue
        i, j = m['names'].index(b[0]), m['names'].index(b[1])
        np_ = ck.named_pair(i, j)
        for c, tok in zip(head[2:], b[2:]):
            if c in PAIR_COLS and ck.ref['fam'][PAIR_COLS[c][0]] is not None:
                fam, fld = PAIR_COLS[c]
                text_pair(ck, view, c, f'{b[0]}-{b[1]}', tok, fam, fld, i, j, np_)


def f12_text(r, robust, via):
    if via == 'get_f12':
        return r.get_f12(robust_std_err=robust)
    # the same report through the file writer (a new file in the worker's private directory, removed again)
    r.write_f12(robust_std_err=robust)
    name = r.data.F12FileName
    try:
        with open(name, encoding='utf-8') as fh:
            return fh.read()
    finally:
        if os.path.isfile(name):
            os.remove(name)


def view_f12(r, ck, robust, view='get_f12'):
    m, k = ck.m, ck.m['k']
    fam = 'robust' if robust else 'classical'
    f = ck.ref['fam'][fam]
    lines = f12_text(r, robust, view).split('\n')
    try:
        coef = lines[lines.index('END') + 1:lines.index('  -1')]
    except ValueError:
        ck.structure(view, 'END / -1 markers present', True, False)
        return
    ck.structure(view, 'coefficient lines', k, len(coef))
    for i, ln in enumerate(coef[:k]):
        parts = ln[5:].rsplit(None, 3)
        if len(parts) != 4:
            ck.structure(view, 'coefficient line fields', 4, len(parts))
            continue
        name, flag, val, se = parts
        named = ck.named_param(i)
        ck.structure(view, 'coefficient name', m['names'][i][:10].strip(), name.strip())
        ck.structure(view, 'constrained flag', 'T' if ck.ref['active'][i] else 'F', flag)
        ck.num(view, 'coefficient value', m['names'][i], float(val), m['values'][i], named, 'estimate')
        refse = f['se'][i] if isnum(f['se'][i]) and f['se'][i] > 0 else 'undefined'
        ck.num(view, f'standard error(robust_std_err={robust})', m['names'][i], float(se), refse, named, f'{fam} std err')
    try:
        end = lines.index('  -1')
    except ValueError:
        ck.structure(view, 'end-of-coefficients marker', True, False)
        return
    toks = lines[end + 1].split()
    named = ck.named_general()
    ck.structure(view, 'statistics line fields', 4, len(toks))
    if len(toks) == 4:
        ck.num(view, 'sample size', 'line K+5', float(toks[0]), float(m['n']), named, 'sample_size')
        ck.num(view, 'null likelihood', 'line K+5', float(toks[2]), 0.0 if m['null'] is None else m['null'], named, 'null')
        ck.num(view, 'final likelihood', 'line K+5', float(toks[3]), m['loglike'], named, 'final')
    # fixed-width fields of 7 characters, 10 per line (a field holding -100000 touches its neighbour)
    corr = [ln[c:c + 7] for ln in lines[end + 3:] for c in range(0, len(ln), 7)]
    pairs = [(i, j) for i in range(k) for j in range(i)]
    ck.structure(view, 'number of correlations', len(pairs), len(corr))
    for (i, j), tok in zip(pairs, corr):
        refv = f['corr'][i][j]
        if not isnum(refv):
            ck.skipped += 1
            continue
        ck.compared += 1
        if abs(int(tok) - 100000 * refv) > 1.0 + 1e-6:
            named = {k_: (100000 * v if isnum(v) else v) for k_, v in ck.named_pair(i, j).items()}
            if any(p != (i, j) and isnum(f['corr'][p[0]][p[1]]) and abs(int(tok) - 100000 * f['corr'][p[0]][p[1]]) <= 1.0 + 1e-6
                   for p in pairs):  # the figure of the same family that belongs at another position of the list
                named = {f'{fam} correlation of another pair': float(int(tok)), **named}
            ck.fail(view, f'correlation*100000(robust_std_err={robust})', f'({i},{j})', int(tok), 100000 * refv,
                    named, f'{fam} correlation')


def text_views(r, m):  # noqa: F811
    return [('short_summary', lambda ck: view_short_summary(r, ck)),
            ('__str__', lambda ck: view_str(r, ck)),
            ('html:robust', lambda ck: view_html(r, ck, True)),
            ('html:all', lambda ck: view_html(r, ck, False)),
            ('f12:robust', lambda ck: view_f12(r, ck, True)),
            ('f12:classical', lambda ck: view_f12(r, ck, False))] + \
           ([('f12file:robust', lambda ck: view_f12(r, ck, True, 'write_f12')),
             ('f12file:classical', lambda ck: view_f12(r, ck, False, 'write_f12'))] if m.get('f12file') else [])
