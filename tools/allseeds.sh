#!/bin/bash
# tools/allseeds.sh C10 [tier] [workers]  -- runs one check under VERIF_SEED 0 1 2 3 7 and prints the summary lines
cd "$(dirname "$0")/.."
for s in 0 1 2 3 7; do
  out=$(VERIF_SEED=$s VERIF_NO_EVIDENCE=1 ./check "$1" --tier "${2:-quick}" --workers "${3:-8}" 2>&1)
  rc=$?
  echo "seed=$s exit=$rc $(echo "$out" | grep -c 'VIOLATION property=') violations; $(echo "$out" | grep -c 'KNOWN-FINDING') known; $(echo "$out" | tail -1 | cut -c1-160)"
  if [ $rc -ne 0 ]; then echo "$out" | grep -A1 "VIOLATION\|HARNESS" | head -12 | cut -c1-400; fi
done
