#!/usr/bin/env python3
"""Rewrites the generated tables of DESIGN.md (findings, seeded changes) between their markers."""
import glob, json, os, re
ROOT = os.path.dirname(os.path.dirname(os.path.abspath(__file__)))
p = os.path.join(ROOT, 'DESIGN.md')
s = open(p).read()

def between(s, a, b, text):
    i, j = s.index(a) + len(a), s.index(b)
    return s[:i] + '\n' + text + '\n' + s[j:]

d = json.load(open(os.path.join(ROOT, 'known_findings.json')))
rows = ['| prop | status | commit | finding key | what fails |', '|---|---|---|---|---|']
for f in sorted(d['findings'], key=lambda f: (f['property'], f['status'])):
    what = re.sub(r'^fixed: property=\S+ \S+ ', '', f['what']).replace('|', '\\|')
    rows.append(f"| {f['property']} | {f['status']} | {f.get('commit', '—')} | `{f['key'].replace('|', '¦')}` | {what} |")
s = between(s, '<!-- FINDINGS-BEGIN -->', '<!-- FINDINGS-END -->', '\n'.join(rows) + '\n\n(`¦` stands for `|` inside keys.)')

rows = ['| seeded id | breaks | change | needs to manifest | caught by (quick tier) | finding keys (first) |', '|---|---|---|---|---|---|']
for m in sorted(glob.glob(os.path.join(ROOT, 'seeded', '*', 'meta.json'))):
    meta = json.load(open(m))
    sid = os.path.basename(os.path.dirname(m))
    conf = meta.get('confirmed_by_maintainer', {})
    caught = []
    keys = []
    for prop, r in conf.get('checks', {}).items():
        caught.append(f"{prop}: {'yes' if r['exit'] == 1 else 'NO (exit %s)' % r['exit']}")
        keys += r.get('keys', [])[:2]
    note = meta.get('maintainer_note', '')
    rows.append(f"| {sid} | {meta['property']} | {meta.get('summary', '').replace('|', '/')} | {meta.get('needs_to_manifest', '').replace('|', '/')[:220]} | "
                f"{'; '.join(caught)}{(' — ' + note) if note else ''} | {'<br>'.join('`' + k.replace('|', '¦') + '`' for k in keys[:2])} |")
s = between(s, '<!-- SEEDED-BEGIN -->', '<!-- SEEDED-END -->', '\n'.join(rows))
open(p, 'w').write(s)
print('tables regenerated')
