#!/usr/bin/env python3
"""Confirm a property-breaking change and run the checks against it, in a scratch worktree.

  tools/seeded.py verify <dir-with-patch.diff+demo.py+meta.json> [--tests] [--tier quick] [--props C01,C02]
  tools/seeded.py keep   <dir> <seeded-id>        copy into /verif/seeded/<id>/ with the recorded outcome
  tools/seeded.py rerun  <seeded-id> [--tier quick]   re-run the checks against a kept change

Nothing is ever applied to /repo itself.  The worktree and its output are removed afterwards.
"""
import json
import os
import re
import shutil
import subprocess
import sys
import xml.etree.ElementTree as ET

VERIF = os.path.dirname(os.path.dirname(os.path.abspath(__file__)))
PY = '/venv/bin/python'


def sh(cmd, cwd=None, env=None, timeout=None):
    e = dict(os.environ)
    if env:
        e.update(env)
    p = subprocess.run(cmd, shell=True, cwd=cwd, env=e, capture_output=True, text=True, timeout=timeout)
    return p.returncode, p.stdout + p.stderr


def verify(d, tests=False, tier='quick', props=None, workers='8'):
    d = os.path.abspath(d)
    meta = json.load(open(os.path.join(d, 'meta.json')))
    prop = meta['property']
    name = os.path.basename(d.rstrip('/'))
    wt = f'/tmp/sw_{name}'
    sh(f'git -C /repo worktree remove --force {wt}')
    rc, out = sh(f'git -C /repo worktree add --detach {wt} HEAD')
    if rc:
        print(out)
        return None
    res = dict(property=prop, dir=d)
    try:
        env = {'PYTHONPATH': f'{wt}/src', 'PYTHONDONTWRITEBYTECODE': '1', 'PYTHONWARNINGS': 'ignore'}
        scratch = f'/tmp/sw_{name}_run'
        os.makedirs(scratch, exist_ok=True)
        rc0, o0 = sh(f'{PY} {d}/demo.py', cwd=scratch, env=env, timeout=600)
        res['demo_unchanged_exit'] = rc0
        rc, out = sh(f'git -C {wt} apply {d}/patch.diff')
        if rc:
            res['apply_error'] = out[-500:]
            return res
        rc1, o1 = sh(f'{PY} {d}/demo.py', cwd=scratch, env=env, timeout=600)
        res['demo_changed_exit'] = rc1
        res['demo_changed_tail'] = o1[-400:]
        res['checks'] = {}
        for p in (props or [prop]):
            rc, out = sh(f'./check {p} --tier {tier} --workers {workers}', cwd=VERIF,
                         env={'VERIF_REPO': wt, 'VERIF_NO_EVIDENCE': '1'}, timeout=7200)
            keys = re.findall(r'key=([^,\n]+(?:,[^\n]*?)?), witnesses', out)
            res['checks'][p] = dict(exit=rc, violations=out.count('VIOLATION property='), keys=sorted(set(keys))[:12],
                                    harness_error='HARNESS-ERROR' in out)
        if tests:
            junit = f'/tmp/sw_{name}_junit.xml'
            rc, out = sh(f'{PY} -m pytest -q -p no:cacheprovider --timeout=900 --continue-on-collection-errors '
                         f'--junitxml={junit} -x --deselect dummy 2>&1 | tail -5', cwd=wt, env=env, timeout=7200)
            res['tests'] = compare_with_baseline(junit)
        shutil.rmtree(scratch, ignore_errors=True)
    finally:
        sh(f'git -C /repo worktree remove --force {wt}')
    return res


def run_tests(d):
    """Full repository test-suite with the change applied (scratch worktree); compares with BASELINE.json."""
    d = os.path.abspath(d)
    name = os.path.basename(d.rstrip('/'))
    wt = f'/tmp/st_{name}'
    sh(f'git -C /repo worktree remove --force {wt}')
    rc, out = sh(f'git -C /repo worktree add --detach {wt} HEAD')
    if rc:
        return dict(error=out[-300:])
    try:
        rc, out = sh(f'git -C {wt} apply {d}/patch.diff')
        if rc:
            return dict(apply_error=out[-300:])
        junit = f'/tmp/st_{name}_junit.xml'
        env = {'PYTHONPATH': f'{wt}/src', 'PYTHONDONTWRITEBYTECODE': '1'}
        sh(f'nice -n 5 {PY} -m pytest -q -p no:cacheprovider --timeout=900 --continue-on-collection-errors --junitxml={junit}',
           cwd=wt, env=env, timeout=7200)
        res = compare_with_baseline(junit)
        os.remove(junit)
        return res
    finally:
        sh(f'git -C /repo worktree remove --force {wt}')


def compare_with_baseline(junit):
    base = json.load(open('/root/.vp/BASELINE.json'))
    stable = set(base['stable_pass'])
    failed, passed = set(), set()
    for tc in ET.parse(junit).getroot().iter('testcase'):
        nm = f"{tc.get('classname')}::{tc.get('name')}"
        if any(ch.tag in ('failure', 'error') for ch in tc):
            failed.add(nm)
        elif not any(ch.tag == 'skipped' for ch in tc):
            passed.add(nm)
    broken = sorted(stable & failed)
    missing = sorted(stable - failed - passed)
    return dict(stable_pass_now_failing=broken, stable_pass_not_run=len(missing), passed=len(passed), failed=len(failed))


def main():
    a = sys.argv[1:]
    if not a:
        print(__doc__)
        return 2
    cmd = a[0]
    tier = a[a.index('--tier') + 1] if '--tier' in a else 'quick'
    props = a[a.index('--props') + 1].split(',') if '--props' in a else None
    workers = a[a.index('--workers') + 1] if '--workers' in a else '8'
    if cmd == 'verify':
        res = verify(a[1], tests='--tests' in a, tier=tier, props=props, workers=workers)
        print(json.dumps(res, indent=1))
        json.dump(res, open(os.path.join(a[1], 'verify_result.json'), 'w'), indent=1)
    elif cmd == 'tests':
        res = run_tests(a[1])
        print(json.dumps(res, indent=1))
        json.dump(res, open(os.path.join(a[1], 'tests_result.json'), 'w'), indent=1)
    elif cmd == 'keep':
        d, sid = a[1], a[2]
        dst = os.path.join(VERIF, 'seeded', sid)
        os.makedirs(dst, exist_ok=True)
        for f in ('patch.diff', 'demo.py'):
            shutil.copy(os.path.join(d, f), dst)
        meta = json.load(open(os.path.join(d, 'meta.json')))
        vr = os.path.join(d, 'verify_result.json')
        if os.path.exists(vr):
            meta['confirmed_by_maintainer'] = json.load(open(vr))
        tr = os.path.join(d, 'tests_result.json')
        if os.path.exists(tr):
            meta['repository_tests_with_change'] = json.load(open(tr))
        if len(a) > 3:
            meta['maintainer_note'] = a[3]
        json.dump(meta, open(os.path.join(dst, 'meta.json'), 'w'), indent=1)
        print('kept', dst)
    elif cmd == 'rerun':
        d = os.path.join(VERIF, 'seeded', a[1])
        res = verify(d, tier=tier, props=props, workers=workers)
        print(json.dumps(res, indent=1))
    return 0


if __name__ == '__main__':
    sys.exit(main())
