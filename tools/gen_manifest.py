#!/usr/bin/env python3
"""Regenerates MANIFEST.json from the table below (kept next to the drivers that exist)."""
import json, os
ROOT = os.path.dirname(os.path.dirname(os.path.abspath(__file__)))
CHECKS = {}
NOT_APPLICABLE = {}

def check(pid, category, text, note, technique, design_ref, thorough=True):
    CHECKS[pid] = dict(
        property_id=pid,
        quick_cmd=f'./check {pid} --tier quick',
        **({'thorough_cmd': f'./check {pid} --tier thorough'} if thorough else {}),
        evidence_file=f'/verif/evidence/{pid}.json',
        replay_cmd_template=f'./check {pid} --replay {{path}}',
        engine='vf-explorer',
        level_claimed=dict(category=category, text=text, design_ref=design_ref),
        level_note=note,
        technique=technique,
    )

exec(open(os.path.join(ROOT, 'tools', 'manifest_table.py')).read())

props = [json.loads(l)['id'] for l in open(os.path.join(ROOT, 'properties.jsonl'))]
man = dict(
    version=1,
    setup_cmd='cd /verif && ./check --selftest',
    hooks=dict(
        guard='BIOGEME_VERIF',
        enable='no source hooks: every seam is injected from outside (module namespace patching in the workers); checks run /repo/src through the editable install',
        baseline_off_cmd='cd /repo && /venv/bin/python -m pytest -ra -q -p no:cacheprovider --timeout=900 --continue-on-collection-errors',
        source_commits=[],
        add_only=True,
    ),
    engines=[dict(name='vf-explorer', path='/verif/vf', serves_properties=sorted(CHECKS),
                  kind_free_text='hand-written bounded-exhaustive explorer (finite spaces, history BFS with canonical states, '
                                 'crash-point / torn-write enumeration over an in-memory file layer, enumerated environment answers) '
                                 'running the real biogeme code in crash-isolated worker processes against reference models')],
    checks=[CHECKS[p] for p in props if p in CHECKS],
    not_applicable=[dict(property_id=p, reason=NOT_APPLICABLE.get(p, 'driver not built yet in this session (planned, see DESIGN.md section 4); not claimed until its check exists'))
                    for p in props if p not in CHECKS],
    notes='See DESIGN.md. known_findings.json lists recorded/fixed defects; seeded/ holds confirmed property-breaking changes used to test detection.',
)
json.dump(man, open(os.path.join(ROOT, 'MANIFEST.json'), 'w'), indent=1)
print('checks:', sorted(CHECKS), 'not_applicable:', [p for p in props if p not in CHECKS])
