#!/usr/bin/env python3
"""Keep every seeded change under /tmp/mut_<id> that is fully confirmed: the demonstration passes on the unchanged tree and
fails with the change, the repository's test-suite shows no stable_pass test failing with it, and a verify result exists.
Already kept ones are refreshed when the verify result changed.  Prints what is still pending."""
import glob, json, os, subprocess, sys
V = os.path.dirname(os.path.dirname(os.path.abspath(__file__)))
notes = json.load(open(os.path.join(V, 'tools', 'seeded_notes.json')))
pending = []
for d in sorted(glob.glob('/tmp/mut_C??_?')):
    sid = os.path.basename(d)[4:]
    vr, tr = os.path.join(d, 'verify_result.json'), os.path.join(d, 'tests_result.json')
    if not (os.path.exists(vr) and os.path.exists(tr)):
        pending.append((sid, 'no verify' if not os.path.exists(vr) else 'no tests'))
        continue
    v, t = json.load(open(vr)), json.load(open(tr))
    if v.get('demo_unchanged_exit') != 0 or v.get('demo_changed_exit') in (0, None):
        pending.append((sid, f"demo {v.get('demo_unchanged_exit')}/{v.get('demo_changed_exit')}: not a valid change on the current tree"))
        continue
    if t.get('stable_pass_now_failing') or 'apply_error' in t or 'error' in t:
        pending.append((sid, f"tests: {str(t)[:120]}"))
        continue
    dst = os.path.join(V, 'seeded', sid, 'meta.json')
    if os.path.exists(dst):
        old = json.load(open(dst))
        if old.get('confirmed_by_maintainer', {}).get('checks') == v.get('checks') and old.get('maintainer_note') == notes.get(sid, old.get('maintainer_note')):
            continue
    args = ['python3', os.path.join(V, 'tools', 'seeded.py'), 'keep', d, sid]
    if sid in notes:
        args.append(notes[sid])
    subprocess.run(args, check=True)
for p in pending:
    print('pending', *p)
