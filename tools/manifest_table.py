check('C15', 'fault_enumeration',
      'Every sequence of derivative evaluations over a 6-point x scaled-flag alphabet to depth 3 (thorough 4 and 6), a merged-state BFS run to a fixpoint, every '
      'evaluation of real optimiser runs under all 9 algorithm names (with an enumerated bootstrap phase), and every crash image (all prefixes of the logged file '
      'operations, every byte cut of every write) are executed on the real BIOGEME object; after each the file is compared with a reference model and a restart is attempted.',
      'Crash model = prefix of the logged operations (process stop, not power loss). The file layer seen by biogeme.biogeme (open/os) is replaced by an in-memory one for the crash part; '
      'sequences and optimiser traces use real files. Values only at the alphabet points.',
      'bounded exhaustive history enumeration + crash-point/torn-write enumeration on the implementation, reference-model oracle',
      'DESIGN.md section 4, C15')
