check('C15', 'fault_enumeration',
      'Every sequence of derivative evaluations over a 6-point x scaled-flag alphabet to depth 3 (thorough 4 and 6), a merged-state BFS run to a fixpoint, every '
      'evaluation of real optimiser runs under all 9 algorithm names (with an enumerated bootstrap phase), and every crash image (all prefixes of the logged file '
      'operations, every byte cut of every write) are executed on the real BIOGEME object; after each the file is compared with a reference model and a restart is attempted.',
      'Crash model = prefix of the logged operations (process stop, not power loss). The file layer seen by biogeme.biogeme (open/os) is replaced by an in-memory one for the crash part; '
      'sequences and optimiser traces use real files. Values only at the alphabet points.',
      'bounded exhaustive history enumeration + crash-point/torn-write enumeration on the implementation, reference-model oracle',
      'DESIGN.md section 4, C15')
check('C01', 'exploration',
      'Every (parent operator, operand slot, child operator) triple of the expression language (37 parent kinds x all slots x 43 child kinds, 2 filler rotations, 2 parameter points, all rows), '
      'sharing variants, side-by-side dictionaries through BIOGEME.simulate, the pure-Python evaluator and the no-database engine path on variable-free variants, and (thorough) all 1.4 million '
      'trees of depth <= 2 plus all depth-3 chains are evaluated on the real engine and compared with a plain-Python reference semantics.',
      'Values only at the alphabet grid; regular domain only (rows outside it, on fragile branches or ill-conditioned are excluded and counted); the engine is exercised, not trusted: its normal-CDF upper-tail defect is a recorded finding.',
      'bounded exhaustive enumeration of expression trees on the implementation vs reference semantics', 'DESIGN.md section 4, C01')
check('C02', 'exploration',
      'Every differentiable (parent, slot, child) triple x 2 rotations x 2 parameter points x 10 call forms (per-row / aggregated / flag combinations / named / create_function / '
      'create_objective_function / BIOGEME with and without scaling), finite-difference helpers on a pool, no-database derivatives and the engine\'s refusal of non-differentiable nodes '
      'are executed on the real engine and compared with exact hyper-dual derivatives of the reference semantics; BHHH and aggregation identities are checked on every case.',
      'Derivatives at grid points; non-differentiable points excluded by rule and counted; tolerance rel 1e-8. The engine\'s PowerConstant(2) Hessian defect is identified exactly (by mimicking it) and recorded as a known finding.',
      'bounded exhaustive enumeration of differentiable expression trees x call forms vs hyper-dual reference derivatives', 'DESIGN.md section 4, C02')
check('C03', 'exploration',
      'For 4 model skeletons, all 60 injective renamings of their parameters into a 5-name pool x all term orders x status assignments (free / bounded / fixed) x all 8 partial dictionaries: '
      'log likelihood, gradient by name, bounds by name and position, simulation and partial-dictionary evaluation are mapped back through the bijection and compared with the reference of the '
      'original skeleton; estimations under renamings must attach each estimate, bound and table row to the right name; all 10 kind pairs sharing one name must be refused at 2 entry points.',
      'Estimates compared up to optimiser tolerance on strictly concave problems; a dictionary naming a fixed parameter is expected not to change it.',
      'bounded exhaustive enumeration of renamings x orders x statuses x dictionaries with a differential oracle', 'DESIGN.md section 4, C03')
check('C04', 'exploration',
      'For 2 models x 3 weight variants x subsets of a 6-row pool: all row permutations x all thread counts 1..N+2 and 0 (every static row partition the engine can form) x 2 parameter points, '
      'and all two-part splits; on each, LL = sum w_i simulate_i = reference, scaled = LL/N, and gradient / Hessian / BHHH aggregate with the same weights and are invariant.',
      'Thread interleavings inside the pre-built engine are not controllable: the partition shapes are enumerated and the engine\'s threads are assumed to write disjoint memory.',
      'bounded exhaustive enumeration of tables x permutations x thread counts x splits x weights vs per-row reference', 'DESIGN.md section 4, C04 and section 5')
check('C09', 'exploration',
      'For every panel composition (1-3 individuals, 1-3 rows each, ids assigned in every order) every permutation of the rows is generated: contiguous ones must yield, per individual matched by id, '
      'the reference product over exactly its rows (mean over draws of the product with one draw series per individual inside MonteCarlo) through get_value_c, calculate_likelihood and simulate; '
      'non-contiguous ones must be refused; the individual map must partition the rows into contiguous blocks and draws must be dimensioned by individuals.',
      'Deterministic user-defined draw generators; values at grid points.',
      'bounded exhaustive enumeration of panel tables and row permutations vs a product / mean-of-products reference', 'DESIGN.md section 4, C09')
check('C10', 'exploration',
      'All ordered selections of 1-3 draw variables of different user-defined types (names whose sorted, appearance and type orders all differ) x 5 integrands x R x N x 2 parameter points: the Monte-Carlo value must be '
      'the mean over each variable\'s own logged series and the draw table must be [obs, draw, variable-by-sorted-name]; all 21 native types in pairs (value = mean over the exposed table), seeds (two fresh processes per (type, seed)), '
      'refusals (unknown type, reserved names, wrong shape); Integrate against closed forms; Derive against hyper-dual derivatives.',
      'Integrals at tolerance 1e-6 for smooth normally-decaying integrands; Derive only with respect to names present in the formula.',
      'bounded exhaustive enumeration of integrands x draw-variable sets x R x N vs mean over logged series', 'DESIGN.md section 4, C10')
check('C11', 'exploration',
      'All 21 catalogue entries are executed for every size of a bounded grid (N <= 7, R <= 50) with numpy\'s RNG replaced by an answer tape (9 deterministic uniform tapes per seed; every shuffle permutation when at most 5 entries are shuffled, '
      'otherwise identity, reversal, every adjacent transposition and rotation). Each output is compared with an independent reference: exact radical inverse of the base and skip parsed from the description text, one point per stratum, mirror halves, '
      '2u-1 of the unit partner, the normal quantile of the underlying uniforms, also through Database.generate_draws. The quantile transform is checked on the exhaustive grid (k+theta)/2^16 (thorough 2^19), all tails 2^-15..2^-1020 and ulp neighbourhoods of all branch points '
      'against a certified erf/erfc quantile, tolerance 3e-14.',
      'Uniform answers come from finite tape families; shuffle answers complete only for n <= 5; libm erf/erfc trusted to a few ulp; entries advertising no skip may use any single skip in 0..64.',
      'bounded exhaustive enumeration of catalogue entries x sizes x enumerated RNG answers; exhaustive dyadic grid for the quantile transform', 'DESIGN.md section 4, C11')
check('C16', 'model_checking',
      'Explicit-state exploration of the configuration graph of 16 (thorough 17) catalog structures on the real Catalog / Controller / CentralController objects. Every configuration of every product is selected through every entry point and compared '
      '(str, decoded signature tree, engine value on every row at two parameter points) with the formula written out by hand. From every configuration, and from every hidden object state, every operator of prepare_operators() x a step alphabet x every answer of the '
      'random seam is applied and compared with a plain-Python reference model (closure, inverse, reached sets); all operator histories to depth 2 (thorough 3-4) are replayed; states reached equal the products (84 / 108), 0.27 M / 9.0 M transitions validated.',
      'Bounded: <= 3 controllers, <= 4 selections, <= 12 (24) configurations per structure; names free of the reserved ; and :. Randomness owned at biogeme.controller.random; any other use is a harness error. Fixed parameters keep their value under betas=, and Decrease_several may increase (both accepted).',
      'bounded exhaustive explicit-state search (all configurations x operators x steps x all answers of an enumerated random seam, all histories to a depth bound) on the real code against a reference model', 'DESIGN.md section 4, C16')
check('C17', 'exploration',
      'Bounded exhaustive enumeration of helper configurations executed on the real code: all admissible piecewise threshold lists of length 2-4 (thorough 2-5) x all coefficient vectors x argument grids containing every threshold and its floating-point neighbours; a Box-Cox lambda grid '
      'straddling the switching point and zero; distribution parameter grids x kink-containing argument grids with Simpson integrals of engine values; all segmentations of 0-2 (3) variables x every reference with the generated code executed; all nest structures of 2-4 (5) alternatives - each in every supported '
      'way of passing parameters, compared with the documented closed form written in plain Python (2.1e5 / 1.2e6 comparisons).',
      'Continuous domains covered at grid points (every branch point and its neighbours included). Densities compared to 1e-9 relative (the library constants have 10 digits); integrals to 1e-6; Box-Cox at x = 0 counted as out of domain; an open first piecewise interval is measured from the origin.',
      'bounded exhaustive enumeration of helper configurations x argument grids through the real engine vs documented closed forms', 'DESIGN.md section 4, C17')
check('C20', 'exploration',
      'Every deprecated alias of the package is discovered by walking all modules and all classes through their MRO (32 function and 88 method declarations, 624 (receiver class, alias) pairs, 19 keyword-renaming wrappers; cross-checked against an AST count). For every pair x 4 call variants x all argument shapes '
      'x 2 token pools, a recording sentinel installed as the receiver\'s replacement must be reached once with identical arguments, pass its result or exception back, and exactly one DeprecationWarning naming it and nothing else may be emitted. Every obsolete keyword subset is checked the same way against a reference renaming model, '
      'every alias name against the snake-cased callable of its scope, and 1932 (7728 thorough) paired old/new calls on real receivers must agree in result, exception, state, files and warnings.',
      'Paired-call equality holds on the recipe arguments only; static-method aliases cannot see a receiver; engine derivative calls on And/Or/BelongsTo are excluded (engine raises, outside /repo).',
      'bounded exhaustive enumeration of all discovered (receiver class, alias) pairs x call variants x argument shapes with a recording sentinel, plus paired old/new calls', 'DESIGN.md section 4, C20')
check('C12', 'exploration',
      'Fault planting over every operator kind x operand slot x 5 fault kinds (column absent, one name for two kinds, draw outside MonteCarlo, integration variable outside Integrate, panel variable outside the trajectory) x depth (direct, one operator deeper through 8 wrappers; thorough: every kind/slot) '
      'x 5 entry forms; structural faults (choices, availabilities, nests, Hessian without gradient, bad tables) x 2 entry points; missing-data code placed in every cell of a table for 7 formulas x 2 codes against the lazy-read reference semantics (each expected engine error in a fresh process); '
      'and every unfaulted skeleton through every entry form (no false rejection, reference value). Oracle: the library\'s own error type with a message naming the element, before any number.',
      'Placement rules are judged at the BIOGEME entry forms (expression level: only "no number" for draws / integration variables); message clarity approximated by "names the element"; the engine\'s sticky error is a recorded finding and forces fresh processes for expected engine errors.',
      'bounded exhaustive fault planting and missing-data cell placement on the real library/engine', 'DESIGN.md section 4, C12')
check('C19', 'exploration',
      'Every set partition of 4-6 alternatives into <= 3 strata x every size vector x every chosen alternative x every ordered subset the sampler can return (pandas DataFrame.sample replaced by an enumerating seam that also validates each request) is executed on the real ChoiceSetsGeneration. '
      'Each generated row is checked against an independent reference of the protocol (chosen first, no duplicates, per-stratum counts, ln(k/n) corrections, n/k MEV weights, own-attribute combined variables); each generated table\'s log likelihood (logit; nested and cross-nested with a second sample) '
      'through BIOGEME.calculate_likelihood at 3 parameter points equals the reference corrected model and, under complete sampling, the textbook full-choice-set model.',
      'True partitions and unique ids only; (first answer, second answer) pairs are the full product only up to 48 per context, otherwise a covering diagonal; rows of one table treated as independent; sampled nested/CNL cases needing log(0) excluded and counted.',
      'bounded exhaustive enumeration of partitions x sample sizes x choices x every answer of the owned sampler vs a protocol / likelihood reference', 'DESIGN.md section 4, C19')
check('C13', 'model_checking',
      'Explicit-state breadth-first search over operation histories of the real biogeme.database.Database; a state is a history, replayed on fresh objects and merged on a canonical form of the real object. From three 5-row root tables (RangeIndex, permuted labels, duplicate labels) every sequence of '
      'remove / add_column / define_variable / scale_column / panel / build_panel_map is explored to depth 3 (thorough 4), plus 18 chains of 6-7 operations; each step is compared cell by cell with a naive plain-Python reference table. In every expanded state every split (all shuffle permutations; slices 2-5; groups None/id/c), '
      'sample (all index vectors), extract_rows, count, flatten and values_from_database is executed and compared (quick 9e4 executions over 958 states; thorough 1.9e6 over 12269).',
      'Tables bounded to 5 rows with dyadic values in five alphabets; randomness owned at numpy.random.randint / shuffle and DataFrame.sample(frac=1); order inside an individual after the (unstable) panel sort left free; frontiers at the depth bound are reported, not expanded.',
      'explicit-state BFS over operation histories on the real object, all random answers enumerated, against a naive reference table', 'DESIGN.md section 4, C13')
check('C05', 'exploration',
      'Every model of the family (logit, nested, nested with mu, cnl, cnlmu, user MEV through mev/logmev, ordered logit/probit, and each log version) is evaluated by the real engine on all nest structures for J <= 3 (thorough J <= 4), all parameter assignments from the grids, all 2^J-1 availability patterns and full utility grids, '
      'in several expression forms. Every probability vector is checked for [0,1], zero-when-unavailable, sum one, equality with the textbook closed form from an independent reference (own G(y) differentiated by dual numbers), shift invariance, and log = ln(prob) (quick 8.7e5 vectors, thorough 3.0e7).',
      'Continuous domains at grid points; CNL with at most two nests per alternative and reduced parameter assignments for the largest families; the ordered-probit main grid keeps z < 6 and the tail is checked for the unit interval only (engine known finding).',
      'bounded exhaustive enumeration of nest structures x parameter grids x availability patterns x utility grids on the real engine vs closed forms', 'DESIGN.md section 4, C05')
check('C06', 'exploration',
      'Over the same structure sweep, pairs of model functions are evaluated by the real engine on identical rows and must agree: nested(mu_m=1) = logit, cnl with whole memberships = nested (also with mu), scale 1 = unscaled, legacy tuples = nest objects. The published nested-logit generating function is differentiated for real '
      'by the engine gradient with V_i = beta_i + column: ln(dG/dV_i) - V_i must equal get_mev_for_nested[i] and the reference ln G_i, and G must equal the closed form, for every structure including alternatives outside every nest, with and without availabilities, in both nest syntaxes.',
      'The engine gradient is trusted as the derivative (checked by C02); G is not pinned where an alone alternative is unavailable; derivatives w.r.t. unavailable alternatives are not compared.',
      'bounded exhaustive enumeration of nest structures; paired-model equality and engine differentiation of the published generating function', 'DESIGN.md section 4, C06')
check('C08', 'exploration',
      'Exhaustive enumeration of a finite product space of synthetic raw estimation outcomes (K <= 3; negative-definite, rank-deficient and zero-row Hessians; four BHHH kinds; with and without null / initial likelihood, bootstrap sample and active bounds; three sample sizes) injected into the real RawResults / bioResults, '
      'with all report switches, all ordered 1-3-model compilations under 2^5 flag combinations, an LR-test grid and real estimations with owned bootstrap resamples. Every cell of every tabular and textual view is compared with an exact-rational recomputation of the quantity its label names, separately for the classical, robust and bootstrap families (quick 1.6e6 cells).',
      'Stub model object as injection seam (confirmed on real BIOGEME objects); cells with an undefined formula (zero variance, zero L0, LR ties) skipped and counted; p-values compared with absolute tolerance 1e-12.',
      'bounded exhaustive enumeration of raw outcomes x report views vs exact-rational recomputation', 'DESIGN.md section 4, C08')
check('C14', 'model_checking',
      'Every history of up to 3 (thorough 4) output operations (write_pickle/html/latex/f12, dump_on_file, estimate with html/pickle, estimate(recycle), validate, default-parameter-file creation, create_backup, a second model) is executed on the real library from 4 pre-populated directories (empty, all names present, a numbering gap, directories / dangling links in the way) '
      'and stepped against a reference directory model: earlier entries byte-identical, handed-out names new, created set as predicted, new files read back, recycling returns the last results written. Round trips are enumerated exhaustively: every results object of a 5-kind x 6-name-pool x bootstrap family bit-exactly through pickle; '
      'every single deviation and pair of deviations of the parameter alphabet through dump_file / tomllib / read_file / BIOGEME; every accepted boolean spelling; every report writer parsed for a complete parameter listing; all 256 pre-states of the naming helper.',
      'datetime.now() frozen; bootstrap resamples a fixed tape; __*.iter files excluded (C15); fewer than 100 files per name; validate limited to the first 2 / 3 positions; the BFS frontier at the depth bound is reported, not expanded.',
      'explicit-state BFS over output-generation histories in pre-populated directories against a reference directory model; exhaustive round-trip enumeration', 'DESIGN.md section 4, C14')
check('C18', 'exploration',
      'Every MDCEV consumer problem in a finite space - 4 utility variants x outside good none/each position x prices x scale x 2-3 parameter sets x 2 rows x 2-3 budgets x all 27 error draws from {-1,0,1}^3 - is solved by the real forecast_bisection_one_draw / forecast under 12 (thorough 76) integer labelings. '
      'Each answer is compared with a plain-Python reference optimum, KKT conditions, the library\'s brute-force optimiser and the answers under the other labelings. The numeric, symbolic (engine) and closed-form utility, derivative and inverse are compared on a grid, and all operation histories over '
      '{set parameters A/B, forecast, pieces, validation} to depth 3 (4) are checked against the reference with the current parameters (quick 1.4e5 evaluations, 89-92% corner solutions).',
      '3 goods only; continuous domains on grids; strictly concave utilities; the epsilon column convention is key_to_index; parameters change only through the estimation_results setter; the engine is trusted for the value and gradient of the symbolic utility.',
      'bounded exhaustive enumeration of problems x labelings x histories against a reference solver and closed forms', 'DESIGN.md section 4, C18')
check('C07', 'exploration',
      'Bounded exhaustive enumeration on the real estimate() / quick_estimate(): 8 concave model templates x every table of a finite family (tables without a finite well-conditioned interior maximum rejected by the reference and counted) x 26 algorithm names / option variants x bound configurations derived from the reference optimum '
      '(none, inactive, upper/lower bound active on each parameter) x 3 starts x both entry points (quick 2.4e4 executions, thorough 1.6e5). Each run is compared with a plain-Python closed-form likelihood, gradient, Hessian and BHHH and with a Newton / active-set reference optimum: feasibility, monotonicity, recomputation of the reported value and derivatives, '
      'KKT and agreement at reported convergence, write-back and fixed parameters. Bootstrap histories with every multiset resample (owned through numpy.random.randint, cross-section and panel) check that the reported likelihood is recomputable afterwards.',
      'Concave logit / normal-regression models with 1-3 free parameters on 3-6 row tables; tolerances are the design values widened only to what the algorithms\' own relative-gradient stopping rule permits; algorithms without bound support compared with the unconstrained optimum only.',
      'bounded exhaustive enumeration of models x tables x algorithms x bounds x starts on the real estimation entry points vs closed-form reference optimum', 'DESIGN.md section 4, C07')

# additions made while strengthening the checks against seeded changes (appended to level_claimed.text)
EXTRA = {
 'C01': ' Alphabets include two fixed parameters met in non-sorted order, availability dictionaries in other orders than the utilities, and numeric literals needing many digits / scientific notation; numbering histories (a formula numbered jointly, one of its sub-formulas evaluated alone through three entry points, the enclosing formula evaluated again) are enumerated over 5 sub-formulas x 7 parents x slots.',
 'C02': ' Also: the disaggregated-named form; call histories on BIOGEME objects (arrays returned by an earlier call must not change, a second model built on the same formula object must not disturb the first); logit formulas in which one Variable object serves as availability / choice and appears in a utility.',
 'C03': ' Also: all sequences (depth 2, thorough 3) of the 8 partial dictionaries on one expression that keeps its id manager (prepared expression, BIOGEME-owned formula, after create_function); get_beta_values for every ordered subset of names; every parameter-carrying sub-formula evaluated alone before simulate.',
 'C04': ' Also: the four accepted spellings of the dictionary keys; panel data (scaled = LL / individuals); all operation histories to depth 4-5 over {new model, new model with 2*cpu+1 threads on 3*T rows, likelihood, simulate, remove rows, estimate with bootstrap, change_init_values to 0 / 0.5} on one Database, the likelihood being compared with the weighted sum over the current table after every observation.',
 'C09': ' Also: identifiers that are large and close together, row labels that are neither 0..n-1 nor sorted, and histories [declare panel, evaluate, replace the table directly (drop an individual / append one), evaluate].',
 'C10': ' Also: user-defined type names that differ from native names only by case, an integer-valued generator for the alphabetically first variable, generator types registered twice, the BIOGEME path (simulate, calculate_likelihood) for multi-draw formulas, and histories of three formulas with different draw sets / numbers of draws evaluated on one database.',
 'C12': ' Also: inconsistent logit specifications (availability keys, missing availability, choice outside the utilities) planted at every position like the other faults; nest overlaps / stray alternatives at every nest position among three nests in both syntaxes; tables that become invalid (NaN from a defined variable) after the Database was declared panel or already used by a model.',
 'C15': ' The alphabet contains a point with a finite value but an infinite gradient; derivative flags (Hessian / BHHH requested or not) vary in the events; points far below the best are evaluated after estimate() (also after a bootstrap); histories that rename the model between evaluations are enumerated.',
 'C05': ' Nests are built under four naming modes (distinct names, unnamed, one shared name, an object first used in a smaller specification).',
 'C08': ' Also: power-of-two rescalings of Hessian / BHHH (all eigenvalues tiny, one or two badly scaled parameters, all huge) crossed with the identification threshold of the results object (default, 0, 1e-9 ... 1e4), which must not influence any figure; compiled tables with every entry given as a results object, as its pickle file or as an unreadable name (missing, corrupt, foreign, empty, directory) in every position, through compile_estimation_results and compile_results_in_directory.',
 'C13': ' A second breadth-first search (depth 3) runs over a wide alphabet: conditions whose values are non-zero at any magnitude (tiny factors, a column used as the condition, a raw non-zero number), tiny scale factors, a stored tiny column, and a formula that is NaN on some rows. Three exhaustive sweeps follow: 13 magnitudes from 2^-20 to 2^-1000 and 1e-7 to 1e-300 x 5 ways a condition value of that size arises x 4 earlier histories x 3 roots; all 31 placements of NaN in a defined variable followed by panel / remove / flatten; all 3^5 columns over {v1, v2, NaN} on 5 raw frame layouts handed directly to biogeme.tools.database.flatten_database (also called in every state of both searches).',
 'C14': ' Also: writer histories (pickle / html / latex / f12 / data dump, depth 3-4) over an alphabet of 12 model names (blanks, dots, ~, non-ASCII, long) in empty / own-files / neighbour-files directories; histories of set_value / dump_file / read_file on one Parameters object against a reference dictionary; pickle round trip and recycling under non-default identification thresholds.',
 'C16': ' Also: histories on a single Configuration object (8 ways of obtaining it x every configuration x every listing order, followed by 1-3 assignments of the public selections property), checked for identifier, equality / hash against the whole product, round trip, set membership, iteration and operators.',
 'C17': ' Nest structures are additionally explored in every order of writing them down (all permutations of the tuple of nests x all permutations of every member list, sorted and unsorted choice sets).',
}
for _pid, _txt in EXTRA.items():
    CHECKS[_pid]['level_claimed']['text'] += _txt
